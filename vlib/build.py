"""E5 - compiler / sanitizer matrix, crash-resuming vector runner."""
import os
import re
import struct
import subprocess

from vlib import common

UBSAN = "undefined,bounds,alignment,null,pointer-overflow,shift,signed-integer-overflow,float-cast-overflow,float-divide-by-zero,builtin"
KINDS = {
    "asan": dict(cc="clang", cxx="clang++", flags=["-O1", "-g", "-fno-omit-frame-pointer", "-fsanitize=address," + UBSAN, "-fno-sanitize-recover=all"]),
    "msan": dict(cc="clang", cxx=None, flags=["-O1", "-g", "-fno-omit-frame-pointer", "-fsanitize=memory", "-fsanitize-memory-track-origins"]),
    "gcc": dict(cc="gcc", cxx="g++", flags=["-O2", "-g"]),
    "gccasan": dict(cc="gcc", cxx="g++", flags=["-O1", "-g", "-fsanitize=address,undefined", "-fno-sanitize-recover=all"]),
}
SAN_ENV = dict(ASAN_OPTIONS="abort_on_error=1:detect_leaks=1:detect_stack_use_after_return=1:strict_string_checks=1:allocator_may_return_null=1:print_legend=0",
               UBSAN_OPTIONS="print_stacktrace=1:halt_on_error=1", MSAN_OPTIONS="abort_on_error=1", LSAN_OPTIONS="exitcode=23")


def compile_unit(src, out, include_dirs, kind="asan", cxx=False, std=None, defines=(), extra=(), timeout=900):
    k = KINDS[kind]
    cc = k["cxx"] if cxx else k["cc"]
    cmd = [cc, "-std=%s" % (std or ("c++14" if cxx else "c11"))] + k["flags"] + ["-D%s" % d for d in defines] + list(extra)
    for i in include_dirs:
        cmd += ["-I", i]
    cmd += [src, "-o", out]
    if not cxx:
        cmd += ["-lm"]
    r = common.run(cmd, timeout=timeout)
    return r.returncode == 0, r.stderr


def frame(op, ti, vid, bufsize=0, payload=b"", pre=0, prior=0, objpre=2, prior_payload=b""):
    return struct.pack("<BBBBHIIII", op, pre, prior, objpre, ti, vid, bufsize, len(payload), len(prior_payload)) + payload + prior_payload


REPORT_HEAD = re.compile(r"(==\d+==ERROR: \w+Sanitizer[^\n]*|runtime error: [^\n]*|SUMMARY: \w+Sanitizer[^\n]*|NUNAVUT_ASSERT_FAILED[^\n]*|==\d+==WARNING: MemorySanitizer[^\n]*)")
FRAME = re.compile(r"#\d+ 0x[0-9a-f]+ in (\S+) ([^\s:]+):(\d+)")


def summarize_report(stderr):
    """Key a sanitizer report by its message and the top frames inside generated code / harness (line numbers stripped)."""
    heads = REPORT_HEAD.findall(stderr)
    head = heads[0] if heads else ("abnormal termination: " + stderr.strip().splitlines()[-1][:120] if stderr.strip() else "abnormal termination (no output)")
    frames = []
    for fn, path, line in FRAME.findall(stderr):
        base = os.path.basename(path)
        if base.endswith((".h", ".hpp", ".c", ".cpp")) and "sanitizer" not in path and "/usr/" not in path:
            frames.append("%s@%s" % (fn, base))
    dedup = []
    for f in frames:
        if not dedup or dedup[-1] != f:
            dedup.append(f)
    kind = re.sub(r"0x[0-9a-f]+|\d+", "N", head)[:160]
    return kind, dedup[:4]


def run_vectors(binary, frames, kind="asan", timeout_per_run=600, max_restarts=200):
    """frames: list of (vid, bytes). Returns (results {vid: (rc, size, out)}, crashes [(vid, kind, frames, text)], inconclusive reason or None)."""
    env = dict(os.environ, **SAN_ENV)
    results, crashes = {}, []
    pending = list(frames)
    restarts = 0
    while pending:
        data = b"".join(f for _, f in pending)
        try:
            p = subprocess.run([binary], input=data, capture_output=True, timeout=timeout_per_run, env=env)
        except subprocess.TimeoutExpired as e:
            # find the vector it was working on; a hang is re-run alone with a generous watchdog by the caller
            err = (e.stderr or b"").decode("utf-8", "replace")
            last = re.findall(r"^V (\d+)$", err, re.M)
            return results, crashes, "watchdog: harness did not finish (last vector %s)" % (last[-1] if last else "?")
        out = p.stdout
        pos = 0
        done = set()
        while pos + 24 <= len(out):
            vid, rc, size, live, olen = struct.unpack_from("<IiQiI", out, pos)
            if pos + 24 + olen > len(out):
                break
            results[vid] = (rc, size, out[pos + 24: pos + 24 + olen], live)
            done.add(vid)
            pos += 24 + olen
        err = p.stderr.decode("utf-8", "replace")
        if p.returncode == 0 and len(done) == len(pending):
            # LeakSanitizer reports at exit
            if "LeakSanitizer" in err:
                k, fr = summarize_report(err)
                crashes.append((None, k, fr, err[-3000:]))
            break
        announced = re.findall(r"^V (\d+)$", err, re.M)
        crashed = int(announced[-1]) if announced else pending[0][0]
        # the report belongs to the last announced vector unless it completed (then: exit-time report, e.g. leaks)
        if crashed in done:
            k, fr = summarize_report(err)
            crashes.append((None, k, fr, err[-3000:]))
            pending = [(v, f) for v, f in pending if v not in done]
            if not pending:
                break
        else:
            k, fr = summarize_report(err[err.rfind("V %d" % crashed):])
            crashes.append((crashed, k, fr, err[-3000:]))
            idx = next(i for i, (v, _) in enumerate(pending) if v == crashed)
            pending = pending[idx + 1:]
        restarts += 1
        if restarts > max_restarts:
            return results, crashes, "more than %d sanitizer aborts in one harness" % max_restarts
    return results, crashes, None


def sanitizer_canary(scratch):
    """A deliberate heap overflow must be reported by the ASan build (else the memory-safety monitors are blind)."""
    src = os.path.join(scratch, "canary.c")
    with open(src, "w") as f:
        f.write("#include <stdlib.h>\n#include <string.h>\nint main(int c, char** v){ volatile char* p = (char*) malloc(8); p[8 + (c > 5)] = 1; int r = p[1]; free((void*) p); return r; }\n")
    ok, err = compile_unit(src, os.path.join(scratch, "canary"), [], "asan")
    if not ok:
        return False, "canary does not compile: %s" % err[-300:]
    p = subprocess.run([os.path.join(scratch, "canary")], capture_output=True, env=dict(os.environ, **SAN_ENV))
    if p.returncode == 0 or b"heap-buffer-overflow" not in p.stderr:
        return False, "ASan did not report the deliberate overflow"
    return True, ""
