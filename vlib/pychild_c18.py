"""C18 probes, executed inside the child interpreter against the generated Python classes."""
import collections
import math
import random

import pydsdl

from vlib import refmodel as M


class UnionInvariantBroken(Exception):
    pass


def run(cmd, H):
    ns, np = H.ns, H.np
    R = random.Random(cmd["seed"])
    C = collections.Counter()
    refs = []
    samples = []

    def refute(what, mech=None, **w):
        C["refuted"] += 1
        if len(refs) < 40:
            refs.append({"what": what, "witness": w, "mech": mech})

    def pyname_kw(cls, name):
        import inspect
        params = inspect.signature(cls.__init__).parameters
        for n in (name, name + "_"):
            if n in params:
                return n
        return None

    def options_set(t, obj):
        it = M.inner(t)
        return sum(1 for f in it.fields if ns.get_attribute(obj, f.name) is not None)

    def observe_union(t, obj, when):
        C["union_observations"] += 1
        n = options_set(t, obj)
        if n != 1:
            refute("union object of %s holds %d options %s" % (t, n, when), type=str(t), when=when)
            return False
        return True

    # icontract invariant on every generated union class (evaluation counter proves it ran)
    try:
        import icontract
    except ImportError:
        icontract = None
    inv_evals = collections.Counter()

    def attempt(fn):
        try:
            fn()
            return None
        except ValueError:
            return "ValueError"
        except UnionInvariantBroken:
            return "UnionInvariantBroken"
        except Exception as e:
            return type(e).__name__

    def probe_type(key, t):
        it = M.inner(t)
        try:
            cls = ns.get_class(t)
        except Exception as e:
            refute("get_class failed for %s: %r" % (t, e), type=key)
            return
        C["types"] += 1
        is_union = isinstance(it, pydsdl.UnionType)
        # ------------------------------------------------------------------ D: model reflection
        C["model_checks"] += 1
        try:
            m = ns.get_model(cls)
            why = model_diff(m, t)
            if why:
                refute("_MODEL_ of %s differs from the source DSDL model: %s" % (key, why), type=key)
            elif ns.get_class(m) is not cls:
                refute("get_class(get_model(C)) is not C for %s" % key, type=key)
            else:
                C["model_equal"] += 1
        except Exception as e:
            refute("model reflection failed for %s: %r" % (key, e), type=key)
        # ------------------------------------------------------------------ A: scalar ranges
        for f in it.fields_except_padding:
            dt = f.data_type
            if isinstance(dt, (pydsdl.IntegerType, pydsdl.FloatType)):
                if isinstance(dt, pydsdl.IntegerType):
                    lo, hi = int(dt.inclusive_value_range.min), int(dt.inclusive_value_range.max)
                    probes = [(lo, True), (hi, True), (lo - 1, False), (hi + 1, False), (hi + 2 ** 70, False), (lo - 2 ** 70, False), ((lo + hi) // 2, True)]
                    sdt = {8: "int8", 16: "int16", 32: "int32", 64: "int64"}[M.storage_bits(dt)]
                    if isinstance(dt, pydsdl.UnsignedIntegerType):
                        sdt = "u" + sdt
                    probes += [(getattr(np, sdt)(hi), True), (getattr(np, sdt)(lo), True)]
                    if M.storage_bits(dt) > dt.bit_length:   # storage wider than the field: a NumPy scalar of the storage type can be out of range
                        probes += [(getattr(np, sdt)(hi + 1), False)]
                else:
                    mx = M.FMAX[dt.bit_length]
                    probes = [(mx, True), (-mx, True), (0.0, True), (1.5, True)]
                    if dt.bit_length < 64:
                        probes += [(math.nextafter(mx, math.inf), False), (-mx * 2, False), (1e300, False)]
                for val, ok in probes:
                    for via in ("setter", "ctor"):
                        C["scalar_probes"] += 1
                        if via == "setter":
                            o = cls() if not is_union else None
                            if is_union:
                                o = cls()
                            before = None
                            try:
                                before = ns.get_attribute(o, f.name)
                            except Exception:
                                pass
                            raised = attempt(lambda: ns.set_attribute(o, f.name, val))
                            if not ok and raised is None:
                                refute("setter stored out-of-range value %r into %s.%s" % (val, key, f.name), type=key, field=f.name, value=repr(val))
                            elif not ok and raised != "ValueError":
                                refute("setter raised %s instead of ValueError for out-of-range %r in %s.%s" % (raised, val, key, f.name), type=key, field=f.name, value=repr(val))
                            elif ok and raised:
                                refute("setter rejected in-range value %r for %s.%s with %s" % (val, key, f.name, raised), type=key, field=f.name, value=repr(val))
                            else:
                                C["scalar_probes_ok"] += 1
                                if not ok:
                                    C["out_of_range_rejected"] += 1
                                    after = ns.get_attribute(o, f.name)
                                    if not (after == before or (after is None and before is None)):
                                        refute("rejected assignment changed %s.%s from %r to %r" % (key, f.name, before, after), type=key, field=f.name)
                            if is_union:
                                observe_union(t, o, "after %s assignment of %r to option %s" % ("rejected" if raised else "accepted", val, f.name))
                        else:
                            kw = pyname_kw(cls, f.name)
                            if kw is None:
                                C["ctor_kw_not_found"] += 1
                                continue
                            box = []
                            raised = attempt(lambda: box.append(cls(**{kw: val})))
                            if not ok and raised is None:
                                refute("constructor stored out-of-range value %r into %s.%s" % (val, key, f.name), type=key, field=f.name, value=repr(val))
                            elif not ok and raised != "ValueError":
                                refute("constructor raised %s instead of ValueError for out-of-range %r in %s.%s" % (raised, val, key, f.name), type=key, field=f.name)
                            elif ok and raised:
                                refute("constructor rejected in-range value %r for %s.%s with %s" % (val, key, f.name, raised), type=key, field=f.name)
                            else:
                                C["scalar_probes_ok"] += 1
                                if box and is_union:
                                    observe_union(t, box[0], "after construction with option %s" % f.name)
            # -------------------------------------------------------------- B: array capacities / lengths
            if isinstance(dt, pydsdl.ArrayType):
                et = dt.element_type
                cap = dt.capacity
                var = isinstance(dt, pydsdl.VariableLengthArrayType)
                if cap > 5000:
                    continue

                def elem():
                    if isinstance(et, pydsdl.CompositeType):
                        return ns.get_class(et)()
                    if isinstance(et, pydsdl.BooleanType):
                        return True
                    if isinstance(et, pydsdl.FloatType):
                        return 1.0
                    return 1
                if not var and False:
                    pass
                lengths = [(cap, True), (cap + 1, False)] + ([(0, True), (max(cap - 1, 0), True), (cap + 7, False)] if var else [(cap - 1, False)] + ([(0, False)] if cap else []))
                forms = ["list"]
                if isinstance(et, pydsdl.PrimitiveType):
                    forms.append("ndarray")
                bytelike = isinstance(et, pydsdl.UnsignedIntegerType) and et.bit_length == 8
                if bytelike:
                    forms += ["bytes", "bytearray", "bytes_digits", "bytearray_digits"]    # text that reads as a number is still n bytes
                    if var:     # only variable-length byte arrays document the implicit string encoding
                        forms += ["str", "str_multibyte", "str_digits"]
                for n, ok in lengths:
                    for form in forms:
                        if form == "list":
                            val = [elem() for _ in range(n)]
                        elif form == "ndarray":
                            npdt = np.bool_ if isinstance(et, pydsdl.BooleanType) else (
                                {16: np.float16, 32: np.float32, 64: np.float64}[et.bit_length] if isinstance(et, pydsdl.FloatType) else
                                getattr(np, ("u" if isinstance(et, pydsdl.UnsignedIntegerType) else "") + "int%d" % M.storage_bits(et)))
                            val = np.ones(n, dtype=npdt)
                        elif form == "bytes":
                            val = b"a" * n
                        elif form == "bytearray":
                            val = bytearray(b"b" * n)
                        elif form == "bytes_digits":
                            val = b"1" * n
                        elif form == "bytearray_digits":
                            val = bytearray(b"2" * n)
                        elif form == "str_digits":
                            val = "1" * n
                        elif form == "str":
                            val = "c" * n
                        else:
                            # n *encoded* bytes from fewer characters: 2-byte characters (plus one ASCII when n is odd)
                            val = "é" * (n // 2) + ("x" if n % 2 else "")
                            if len(val.encode()) != n or n < 2:
                                continue
                        for via in ("setter", "ctor"):
                            C["array_probes"] += 1
                            if via == "setter":
                                o = cls()
                                raised = attempt(lambda: ns.set_attribute(o, f.name, val))
                            else:
                                kw = pyname_kw(cls, f.name)
                                if kw is None:
                                    continue
                                raised = attempt(lambda: cls(**{kw: val}))
                            desc = "%s of length %d (%s) for %s.%s [%s]" % (form, n, via, key, f.name, dt)
                            if not ok and raised is None:
                                refute("stored an array beyond capacity / of wrong length: " + desc, type=key, field=f.name, form=form, length=n)
                            elif not ok and raised != "ValueError":
                                refute("raised %s instead of ValueError for " % raised + desc, type=key, field=f.name, form=form, length=n)
                            elif ok and raised:
                                refute("rejected a valid array with %s: " % raised + desc, type=key, field=f.name, form=form, length=n)
                            else:
                                C["array_probes_ok"] += 1
                                if not ok:
                                    C["bad_length_rejected"] += 1
                            if is_union and via == "setter":
                                observe_union(t, o, "after %s array assignment to option %s" % ("rejected" if raised else "accepted", f.name))
                # buffer-protocol objects whose len() is not their byte count (multi-byte items, two dimensions), offered to byte arrays:
                # whatever the setter makes of them (any exception is acceptable for a wrong-typed input), the object must never
                # hold more than the capacity / another number of elements than the fixed length afterwards
                if bytelike and cap >= 2:
                    for form, val in (("memoryview_of_uint16", memoryview(np.arange(cap, dtype=np.uint16))),
                                      ("memoryview_of_uint32", memoryview(np.arange(max(1, cap // 2), dtype=np.uint32))),
                                      ("memoryview_2d", memoryview(np.zeros((cap, 3), dtype=np.uint8))),
                                      ("memoryview_of_bytes", memoryview(b"m" * cap))):
                        o = cls()
                        C["array_probes"] += 1
                        C["buffer_protocol_probes"] += 1
                        raised = attempt(lambda: ns.set_attribute(o, f.name, val))
                        try:
                            held = ns.get_attribute(o, f.name)
                            n_held = None if held is None else len(held)
                        except Exception:
                            n_held = None
                        if n_held is not None and (n_held > cap or (not var and n_held != cap)):
                            refute("after assigning a %s (%s) the field %s.%s [%s] holds %d elements" % (form, "raised " + raised if raised else "accepted", key, f.name, dt, n_held),
                                   type=key, field=f.name, form=form, held=n_held)
                        else:
                            C["array_probes_ok"] += 1
                        if is_union:
                            observe_union(t, o, "after a %s assignment to option %s" % (form, f.name))
        # ------------------------------------------------------------------ C: union life cycle
        if is_union:
            o = cls()
            observe_union(t, o, "after default construction")
            for _ in range(6):
                f = R.choice(it.fields)
                v = M.gen_value(R, f.data_type, in_range=True, maxlen=4)
                raised = attempt(lambda: ns.set_attribute(o, f.name, H.tv(f.data_type, v)))
                if raised and raised not in ("OverflowError",):
                    C["union_setter_exc[%s]" % raised] += 1
                observe_union(t, o, "after selecting option %s" % f.name)
                # a rejected assignment to ANOTHER option must leave the object with exactly one option
                g = R.choice(it.fields)
                bad = None
                if isinstance(g.data_type, pydsdl.IntegerType):
                    bad = int(g.data_type.inclusive_value_range.max) + 1
                elif isinstance(g.data_type, pydsdl.VariableLengthArrayType) and isinstance(g.data_type.element_type, pydsdl.PrimitiveType) and g.data_type.capacity < 2000:
                    bad = [1] * (g.data_type.capacity + 1)
                elif isinstance(g.data_type, pydsdl.CompositeType):
                    bad = "not an object"
                if bad is not None:
                    raised = attempt(lambda: ns.set_attribute(o, g.name, bad))
                    C["union_rejected_assignments"] += 1 if raised else 0
                    observe_union(t, o, "after a rejected assignment of %r to option %s (active: %s)" % (str(bad)[:30], g.name, f.name))
        # ------------------------------------------------------------------ E: builtin round trip
        for _ in range(cmd.get("n_roundtrip", 8)):
            v = M.gen_value(R, t, in_range=True, maxlen=5)
            C["roundtrips_attempted"] += 1
            try:
                o = H.to_object(t, v)
                if is_union:
                    observe_union(t, o, "after building from a value")
                b1 = b"".join(bytes(x) for x in ns.serialize(o))
                bi = ns.to_builtin(o)
                bi_before = repr(bi)
                o2 = ns.update_from_builtin(cls(), bi)
                # the built-in form belongs to the caller: converting must not consume or alter it, and a second conversion of the
                # same form must give the same object
                if repr(bi) != bi_before:
                    refute("update_from_builtin altered the caller's built-in representation of %s" % key, type=key, before=bi_before[:300], after=repr(bi)[:300])
                else:
                    o2b = ns.update_from_builtin(cls(), bi)
                    if b"".join(bytes(x) for x in ns.serialize(o2b)) != b"".join(bytes(x) for x in ns.serialize(o2)):
                        refute("a second update_from_builtin from the same built-in form gives another object for %s" % key, type=key, builtin=bi_before[:300])
                    C["builtin_source_unchanged"] += 1
                if is_union:
                    observe_union(t, o2, "after update_from_builtin")
                b2 = b"".join(bytes(x) for x in ns.serialize(o2))
                if b1 != b2:
                    refute("serialize(update_from_builtin(C(), to_builtin(obj))) != serialize(obj) for %s" % key, type=key, a=b1.hex()[:120], b=b2.hex()[:120], builtin=str(bi)[:300])
                else:
                    C["roundtrips_ok"] += 1
                    if len(samples) < 2:
                        samples.append({"type": key, "builtin": str(bi)[:200], "bytes": b1.hex()[:80]})
                o3 = ns.deserialize(cls, [memoryview(b1)])
                if o3 is not None and is_union:
                    observe_union(t, o3, "after deserialize")
            except OverflowError as e:
                if "out of bounds for" in str(e):
                    C["env_numpy2"] += 1
                else:
                    refute("round trip raised OverflowError for %s: %s" % (key, e), type=key)
            except H.UnionBroken as e:
                refute("union invariant broken during round trip of %s: %s" % (key, e), type=key)
            except Exception as e:
                sh = shadows(t) if isinstance(e, AttributeError) and "'NoneType' object has no attribute" in str(e) else []
                refute("round trip raised %s for %s: %s" % (type(e).__name__, key, str(e)[:200]),
                       mech="py-field-named-like-root-namespace-shadows-module" if sh else None, type=key, value=str(v)[:300], field_named_like_root_namespace=sh)

    def shadows(t, seen=None):
        """A field named like the root namespace of a type this definition refers to (or of itself) - in this definition or in one it
        nests (constructing an object constructs the nested ones, whose constructors are where the shadowed name is used)."""
        seen = set() if seen is None else seen
        if id(t) in seen:
            return []
        seen.add(id(t))
        own = shadows_own(t)
        for f in M.inner(t).fields_except_padding:
            dt = f.data_type
            while isinstance(dt, pydsdl.ArrayType):
                dt = dt.element_type
            if isinstance(dt, pydsdl.CompositeType):
                own = own + shadows(dt, seen)
        return sorted(set(own))

    def shadows_own(t):
        it = M.inner(t)
        names = {f.name for f in it.fields_except_padding}
        roots = {t.root_namespace}
        for f in it.fields_except_padding:
            dt = f.data_type
            while isinstance(dt, pydsdl.ArrayType):
                dt = dt.element_type
            if isinstance(dt, pydsdl.CompositeType):
                roots.add(dt.root_namespace)
        return sorted(names & roots)

    for key in cmd["types"]:
        t = H.MODELS[key]
        try:
            probe_type(key, t)
        except Exception as e:
            import traceback
            sh = shadows(t)
            refs.append({"what": "probing of %s aborted by %s: %s" % (key, type(e).__name__, str(e)[:160]),
                         "witness": {"type": key, "exc": type(e).__name__, "field_named_like_root_namespace": sh, "tb": traceback.format_exc()[-600:]},
                         "mech": "py-field-named-like-root-namespace-shadows-module" if (sh and isinstance(e, AttributeError)) else None})
            C["types_aborted"] += 1

    return {"st": "ok", "counters": dict(C), "refs": refs, "samples": samples}


def model_diff(a, b, path=""):
    """Own deep structural comparison of two PyDSDL models (PyDSDL's __eq__ only looks at class, name, version and bit length set)."""
    if type(a) is not type(b):
        return "%s: class %s != %s" % (path, type(a).__name__, type(b).__name__)
    if isinstance(a, pydsdl.CompositeType):
        for attr in ("full_name", "deprecated", "fixed_port_id", "has_parent_service", "alignment_requirement"):
            if getattr(a, attr) != getattr(b, attr):
                return "%s: %s %r != %r" % (path, attr, getattr(a, attr), getattr(b, attr))
        if (a.version.major, a.version.minor) != (b.version.major, b.version.minor):
            return "%s: version" % path
        if not isinstance(a, pydsdl.ServiceType):
            if a.extent != b.extent or a.bit_length_set.max != b.bit_length_set.max or a.bit_length_set.min != b.bit_length_set.min:
                return "%s: extent / bit length set" % path
        if (a.doc or "") != (b.doc or ""):
            return "%s: doc" % path
        if isinstance(a, pydsdl.DelimitedType):
            return model_diff(a.inner_type, b.inner_type, path + ".inner")
        if isinstance(a, pydsdl.ServiceType):
            return model_diff(a.request_type, b.request_type, path + ".Request") or model_diff(a.response_type, b.response_type, path + ".Response")
        if len(a.attributes) != len(b.attributes):
            return "%s: %d attributes != %d" % (path, len(a.attributes), len(b.attributes))
        for x, y in zip(a.attributes, b.attributes):
            p = "%s.%s" % (path, y.name)
            if type(x) is not type(y) or x.name != y.name:
                return "%s: attribute %s %r != %s %r" % (p, type(x).__name__, x.name, type(y).__name__, y.name)
            if (x.doc or "") != (y.doc or ""):
                return "%s: attribute doc" % p
            if isinstance(x, pydsdl.Constant):
                if str(x.value) != str(y.value) or type(x.value) is not type(y.value):
                    return "%s: constant value %s != %s" % (p, x.value, y.value)
            d = model_diff(x.data_type, y.data_type, p)
            if d:
                return d
        return None
    if isinstance(a, pydsdl.ArrayType):
        if a.capacity != b.capacity:
            return "%s: capacity %d != %d" % (path, a.capacity, b.capacity)
        return model_diff(a.element_type, b.element_type, path + "[]")
    if isinstance(a, pydsdl.PrimitiveType):
        if a.bit_length != b.bit_length or a.cast_mode != b.cast_mode:
            return "%s: primitive %s != %s" % (path, a, b)
        return None
    if isinstance(a, pydsdl.VoidType):
        return None if a.bit_length == b.bit_length else "%s: void" % path
    return None if str(a) == str(b) else "%s: %s != %s" % (path, a, b)
