"""C10 - per-type output ignores sibling types, processing order and earlier runs.

Monitor: byte equality of every per-type file across executions of the real build_namespace_tree / DSDLCodeGenerator that
differ only in (a) processing order, (b) the set of sibling types generated (random and dependency-closed subsets),
(c) what ran earlier in the same interpreter (other languages, other namespaces, the same run again), plus whole-vs-subset
through the real CLI.  State probes on UniqueNameGenerator / LimitEmptyLines / lru caches are recorded as evidence that
the shared state was actually exercised; the verdict is output inequality only.
"""
import collections
import os
import random
import shutil

from vlib import common, dsdlgen, genrun

LEVEL = "exploration"
MANIFEST = {
    "category": "exploration",
    "technique": "metamorphic runtime monitor: byte equality of per-type files across permuted / subset / repeated in-process runs and CLI whole-vs-subset runs, with state probes on the generator's process-global state",
    "text": "For generated namespace sets (incl. several versions of one type with different dependencies, reserved-pattern names, "
            "cross-root references) every per-type file produced by the real generator is compared byte for byte between the whole "
            "namespace in parse order, shuffled orders, random and dependency-closed subsets, repeated runs in the same interpreter "
            "interleaved with runs for other languages/namespaces and stropping configurations, with built-in templates of all four languages and with "
            "stress templates (heavy to_template_unique_name, blank lines at file start/end) under line post-processors; "
            "whole-vs-subset is also driven through the CLI on pruned copies of the namespace."
            " A fixed role-collision set (one spelling as namespace, type and attribute; spellings only some identifier kinds reserve) is generated for every single-type dependency closure in both orders; further histories: earlier generate_all() calls with other per-call options on the same generator objects, an earlier generation aborted by a template error in the middle of a line (fault injection through a user template), one post-processor list object shared with a generator of another language.",
    "note": "Namespace files (__init__.py, index.html, _namespace_) legitimately depend on the sibling set and are not compared. "
            "Sampled inputs; equality oracle needs no reference model.",
}
MANIFEST["text"] += ' Every configuration is also compared with the same configuration generated alone in a fresh process; histories include earlier runs of the same language and templates with other template whitespace options and a user template folder that held only a catch-all template when an earlier generator was built on it; c++17-pmr and non-default whitespace options are among the configurations.'
MANIFEST["text"] += " The fixed set carries documentation shapes (indented list endings, lines long enough to be wrapped); further histories: the output directory already holds the same files with CRLF endings; one generator's first generate_all() is aborted after a file was rendered and generate_all() is called again."

STRESS = {
    "c": ("// {{ T.full_name }}\n\n\n{% for i in range(3) %}{{ 'tmp' | to_template_unique_name }} {% endfor %}\n"
          "{% for f in (T.fields_except_padding if T is not ServiceType else []) %}{{ f | id }} {{ f.name | to_template_unique_name }}\n{% endfor %}\n"
          "{{ 'tmp' | to_template_unique_name }}\n{{ T | full_reference_name }}\n{{ T | includes | join(',') }}\n\n\n\n"),
    "py": ("\n\n# {{ T.full_name }}\n{% for i in range(2) %}{{ 'v' | to_template_unique_name }}\n\n\n{% endfor %}"
           "{% for f in (T.fields_except_padding if T is not ServiceType else []) %}{{ f | id }} = {{ f.name | to_template_unique_name }}\n{% endfor %}"
           "{{ T | full_reference_name }} {{ T | short_reference_name }}\n\n\n"),
}


def write_stress_templates(d, lang):
    os.makedirs(d, exist_ok=True)
    for n in ("StructureType", "UnionType", "DelimitedType", "ServiceType"):
        with open(os.path.join(d, n + ".j2"), "w") as f:
            f.write(STRESS[lang])
    with open(os.path.join(d, "Namespace.j2"), "w") as f:
        f.write("# namespace {{ T.full_name }}\n")


def write_failing_templates(d):
    """User templates that abort in the middle of an output line (fault history: the caller catches the error and goes on)."""
    os.makedirs(d, exist_ok=True)
    for n in ("StructureType", "UnionType", "DelimitedType", "ServiceType"):
        with open(os.path.join(d, n + ".j2"), "w") as f:
            f.write("// first line of {{ T.full_name }} {{ 'sat'|to_template_unique_name }} {{ 'err'|to_template_unique_name }} {{ 'sat'|to_template_unique_name }}\n\n\n"
                    "} // partial line, then a statement raises: {% if T.no_such_attribute.deeper %}x{% endif %} rest\n")
    return d


def failed_generation_first(ctx, d, types, root_dir, lang, how=0):
    """An earlier generation in this interpreter that fails and is caught by the caller: how=0 a user template raises in the middle of a
    line after drawing unique names; how=1 the built-in templates render a file completely and a file post-processor then raises."""
    o = os.path.join(d, "out_failed")
    try:
        if how == 0:
            bad = write_failing_templates(os.path.join(d, "failing_templates"))
            genrun.gen_inprocess(types, root_dir, o, lang, templates_dir=bad)
        else:
            import nunavut._postprocessors as PP

            class Raising(PP.FilePostProcessor):
                def __call__(self, generated):
                    raise RuntimeError("injected post-processing fault")
            genrun.gen_inprocess(types, root_dir, o, lang, post_processors=[Raising()])
        ctx.count("injected_generation_faults_that_did_not_fail")
    except Exception:
        ctx.count("injected_generation_faults")
        ctx.count("injected_generation_faults[%s]" % ("template" if how == 0 else "file_post_processor"))
    shutil.rmtree(o, ignore_errors=True)


def per_type_files(files, ns_stem):
    return {k: v for k, v in files.items() if os.path.splitext(os.path.basename(k))[0] != ns_stem}


def dep_closed_subset(types, r):
    chosen = {}

    def add(t):
        k = genrun.type_key(t)
        if k in chosen:
            return
        chosen[k] = t
        for dt in dsdlgen.composite_deps(t):
            add(dt)
    seeds = [t for t in types if r.random() < 0.4] or types[:1]
    for t in seeds:
        add(t)
    local = {genrun.type_key(t) for t in types}
    return [t for k, t in chosen.items() if k in local]


ROLE_SET = {
    # one spelling in several roles (nested namespace / attribute / type), spellings that only some identifier kinds reserve
    # (C: function, typedef and macro patterns; keywords), so that whatever is stropped first could decide for the others
    "roleq/torque/Inner.1.0.dsdl": "uint8 a\n@sealed\n",
    "roleq/Motor.1.0.dsdl": "float32 torque\nuint8 string\nuint8 total\nuint8 TIME_A\n@sealed\n",
    "roleq/string/S.1.0.dsdl": "uint8 island\nuint8 int8_t\n@sealed\n",
    "roleq/User.1.0.dsdl": "roleq.torque.Inner.1.0 string\nroleq.string.S.1.0 torque\nuint8 atomic_x\n@sealed\n",
    "roleq/island/memory/Deep.1.0.dsdl": "uint8 total\nuint8 register\n@extent 64\n",
    "roleq/Island.1.0.dsdl": "uint8 island\nuint8 memory\nuint8 Island\n@sealed\n",
    "roleq/atomic_x/TIME_A.1.0.dsdl": "uint8 mtx_q\nuint8 roleq\n@sealed\n",
    "roleq/register/Total.1.0.dsdl": "roleq.Motor.1.0 motor\nuint8 atomic_x\n@sealed\n",
    "roleq/Svc.1.0.dsdl": "uint8 torque\nroleq.Island.1.0 memory\n@sealed\n---\nuint8 string\nuint8 register\n@sealed\n",
    "roleq/Torque.1.0.dsdl": "@union\nuint8 torque\nroleq.Motor.1.0 string\nuint16 E2BIG\n@sealed\n",
    # zero-length types, first and last in name order (whatever is processed first may decide what templates get loaded when)
    "roleq/Ack.1.0.dsdl": "@sealed\n",
    "roleq/Zzack.1.0.dsdl": "@extent 0\n",
    "roleq/AckSvc.1.0.dsdl": "@sealed\n---\nuint8[<=3] string\nroleq.Ack.1.0 ack\n@sealed\n",
    # documentation shapes: comments that end in an indented list line (no blank line after it), and - in other types, first and
    # last in name order - documentation lines long enough to be wrapped; headers and fields alike
    "roleq/Aaadocq.1.0.dsdl": "# This line of documentation is deliberately much longer than the width at which the comment helpers wrap text, so that it is re-flowed onto several lines when the header is written out.\n# second paragraph\nuint8 a  # This line of documentation is deliberately much longer than the width at which the comment helpers wrap text, so that it is re-flowed onto several lines when the header is written out.\n@sealed\n",
    "roleq/Listdocq.1.0.dsdl": "# Values:\n#   - first item of an indented list\n#   - last item, nothing follows it\nuint8 a  # field list:\n#     * one\n#     * two\nuint8 b\n@sealed\n",
    "roleq/Zzzdocq.1.0.dsdl": "# This line of documentation is deliberately much longer than the width at which the comment helpers wrap text, so that it is re-flowed onto several lines when the header is written out.\nuint8 a  # This line of documentation is deliberately much longer than the width at which the comment helpers wrap text, so that it is re-flowed onto several lines when the header is written out.\nroleq.Listdocq.1.0 l  # - dash\n#      deeper\n@sealed\n",
    "roleq/torque/Docq.1.0.dsdl": "#    indented from the start\n#        and deeper\nuint8 a  # This line of documentation is deliberately much longer than the width at which the comment helpers wrap text, so that it is re-flowed onto several lines when the header is written out.\n@sealed\n",
}


def write_role_set(dsdl_dir):
    for rel, text in ROLE_SET.items():
        os.makedirs(os.path.dirname(os.path.join(dsdl_dir, rel)), exist_ok=True)
        with open(os.path.join(dsdl_dir, rel), "w") as f:
            f.write(text)
    roots = ["roleq"]
    return roots, dsdlgen.read_all(dsdl_dir, roots), 0


def closure_of(t, types):
    chosen = {}

    def add(x):
        k = genrun.type_key(x)
        if k not in chosen:
            chosen[k] = x
            for dt in dsdlgen.composite_deps(x):
                add(dt)
    add(t)
    local = {genrun.type_key(x) for x in types}
    return [x for k, x in chosen.items() if k in local]


class Probes:
    """State probes (evidence only): how often the process-global state was touched, and what it held."""

    def __init__(self, ctx):
        self.ctx = ctx
        from nunavut.lang._common import UniqueNameGenerator
        import nunavut._postprocessors as PP
        self.resets = 0
        orig_reset = UniqueNameGenerator.reset.__func__ if hasattr(UniqueNameGenerator.reset, "__func__") else UniqueNameGenerator.reset

        probes = self

        def reset(cls=UniqueNameGenerator):
            probes.resets += 1
            return orig_reset(cls)
        UniqueNameGenerator.reset = classmethod(lambda cls: reset(cls))
        self.limit_calls = 0
        self.limit_nonzero_at_file_start = 0
        orig_call = PP.LimitEmptyLines.__call__

        def call(selfpp, t):
            probes.limit_calls += 1
            return orig_call(selfpp, t)
        PP.LimitEmptyLines.__call__ = call

    def report(self):
        self.ctx.count("probe_unique_name_resets", self.resets)
        self.ctx.count("probe_limit_empty_lines_calls", self.limit_calls)


def one_set(ctx, idx, probes):
    R = random.Random("c10/%s/%s" % (ctx.seed, idx))
    d = os.path.join(ctx.scratch, "s%s" % idx)
    if idx == "roles":
        roots, parsed, _ = write_role_set(os.path.join(d, "dsdl"))
    else:
        profile = "codec" if idx % 4 == 0 else "hostile"
        roots, parsed, _ = dsdlgen.make_set(os.path.join(d, "dsdl"), "c10/%s/%d" % (ctx.seed, idx), profile, nroots=2, docs=True)
    from nunavut._postprocessors import LimitEmptyLines, TrimTrailingWhitespace
    import copy
    pristine_by_key = {genrun.type_key(t): t for ts in copy.deepcopy(parsed).values() for t in ts}
    nvar = ctx.pick(3, 8)
    for root in roots:
        types = parsed[root]
        if not types:
            continue
        root_dir = os.path.join(d, "dsdl", root)
        configs = [(l, None, None, {}) for l in ("c", "cpp", "py", "html")]
        # an allocator-aware C++ flavour (its include lists are built from more configuration than the plain one's), and template
        # whitespace options other than the default
        configs.append(("cpp", None, None, dict(options={"std": "c++17-pmr"})))
        configs.append(("c", None, None, dict(ws=dict(trim_blocks=True, lstrip_blocks=True))))
        for l in ("c", "py"):
            td = os.path.join(d, "stress_" + l)
            write_stress_templates(td, l)
            configs.append((l, td, "limit1", {}))
            configs.append((l, td, "trim_limit0", dict(ws=dict(lstrip_blocks=True)) if l == "py" else {}))
        for lang, tdir, ppname, cfgx in configs:
            def pps():
                if ppname == "limit1":
                    return [LimitEmptyLines(1)]
                if ppname == "trim_limit0":
                    return [TrimTrailingWhitespace(), LimitEmptyLines(0)]
                return None
            tag = "%s_%s_%s%s" % (root, lang, ppname or "builtin", "_x" if cfgx else "")
            kwx = dict(options=cfgx.get("options"), gen_kwargs=cfgx.get("ws"))
            n = [0]

            def run(ts, order_seed=None, **kw):
                n[0] += 1
                out = os.path.join(d, "out_%s_%d" % (tag, n[0]))
                if R.random() < 0.6:
                    # pristine models (PyDSDL memoizes inside its objects): a deep copy of the freshly parsed types, so that
                    # nothing an earlier run computed is carried along; the other runs deliberately reuse the shared objects
                    import copy
                    ts = copy.deepcopy([pristine_by_key[genrun.type_key(t)] for t in ts])
                    ctx.count("runs_on_pristine_models")
                shared = kw.pop("shared_pps", None)
                if kw.pop("crlf_first", False):
                    # the output directory already holds the same files with CRLF line endings (an earlier run of this interpreter
                    # whose file post-processor converted them, as unix2dos or a checkout with autocrlf would)
                    import nunavut._postprocessors as _pp

                    class ToCRLF(_pp.FilePostProcessor):
                        def __call__(self, generated):
                            data = generated.read_bytes().replace(b"\r\n", b"\n").replace(b"\n", b"\r\n")
                            os.chmod(str(generated), 0o644)
                            generated.write_bytes(data)
                            return generated
                    genrun.gen_inprocess(ts, root_dir, out, lang, order_seed=order_seed, post_processors=(pps() or []) + [ToCRLF()], templates_dir=tdir, **kwx)
                files, ns = genrun.gen_inprocess(ts, root_dir, out, lang, order_seed=order_seed, post_processors=shared if shared is not None else pps(),
                                                 templates_dir=kw.pop("templates_dir", tdir), **dict(kwx, **kw))
                stem = ns.get_language_context().get_target_language().namespace_output_stem
                shutil.rmtree(out, ignore_errors=True)
                return per_type_files(files, stem)
            try:
                base = run(types)
            except Exception as e:
                ctx.count("generation_failed")
                ctx.refute(None, "generation failed: %r" % e, dict(set=idx, root=root, lang=lang, templates="stress" if tdir else "builtin"))
                continue
            ctx.count("base_runs")
            variants = []
            if idx == "roles" and not tdir:
                # exhaustive for the fixed set: every type generated with nothing but its own dependency closure, in both orders
                for t in types:
                    try:
                        sub = closure_of(t, types)
                        variants.append(("closed", run(sub)))
                        variants.append(("closed", run(list(reversed(sub)))))
                    except Exception as e:
                        ctx.refute(None, "variant closed failed: %r" % e, dict(set=idx, root=root, lang=lang))
                for olang in ("c", "cpp", "py"):
                    if olang != lang:
                        try:
                            shared = []
                            o = os.path.join(d, "out_other")
                            genrun.gen_inprocess(types, root_dir, o, olang, post_processors=shared)
                            shutil.rmtree(o, ignore_errors=True)
                            variants.append(("shared_pp_list", run(types, shared_pps=shared)))
                        except Exception as e:
                            ctx.refute(None, "variant shared_pp_list failed: %r" % e, dict(set=idx, root=root, lang=lang))
                for flang, how in (("c", 0), ("py", 0), (lang, 1), ("c", 1)):
                    try:
                        failed_generation_first(ctx, d, types, root_dir, flang, how)
                        variants.append(("after_failed", run(types)))
                    except Exception as e:
                        ctx.refute(None, "variant after_failed failed: %r" % e, dict(set=idx, root=root, lang=lang))
                for nth in (1, 2):
                    try:
                        variants.append(("same_generator_after_failure", run(types, fail_first=nth)))
                    except Exception as e:
                        ctx.refute(None, "variant same_generator_after_failure failed: %r" % e, dict(set=idx, root=root, lang=lang))
                try:
                    variants.append(("same_outdir_crlf", run(types, crlf_first=True)))
                except Exception as e:
                    ctx.refute(None, "variant same_outdir_crlf failed: %r" % e, dict(set=idx, root=root, lang=lang))
                # and every single earlier generate_all() on the same generator objects that differs in one per-call option
                for pre in ([dict(omit_serialization_support=True)], [dict(embed_auditing_info=True)], [dict(is_dryrun=True, omit_serialization_support=True)],
                            [dict(is_dryrun=True, embed_auditing_info=True)], [dict(allow_overwrite=False)],
                            [dict(omit_serialization_support=True, embed_auditing_info=True), dict(is_dryrun=True)]):
                    try:
                        variants.append(("same_generator", run(types, pre_calls=pre)))
                    except Exception as e:
                        ctx.refute(None, "variant same_generator failed: %r" % e, dict(set=idx, root=root, lang=lang, pre_calls=pre))
            for v in range(nvar):
                kind = R.choice(["perm", "subset", "closed", "again", "after_other", "after_config", "config_vs_fresh", "same_generator", "after_failed", "shared_pp_list",
                                 "after_other_whitespace", "after_template_set_change", "same_outdir_crlf", "same_generator_after_failure"])
                if kind == "config_vs_fresh" and (lang == "html" or tdir or cfgx):
                    kind = "perm"
                if kind == "after_template_set_change" and not tdir:
                    kind = "after_other_whitespace"
                try:
                    if kind == "shared_pp_list":
                        # library use: one post-processor list object handed to a generator of another language first
                        shared = pps() or []
                        o = os.path.join(d, "out_other")
                        genrun.gen_inprocess(types, root_dir, o, R.choice([l for l in ("c", "cpp", "py") if l != lang]), post_processors=shared)
                        shutil.rmtree(o, ignore_errors=True)
                        variants.append((kind, run(types, shared_pps=shared)))
                    elif kind == "after_failed":
                        failed_generation_first(ctx, d, types, root_dir, R.choice(["c", "py", lang]))
                        variants.append((kind, run(types)))
                    elif kind == "same_generator":
                        # earlier generate_all() calls on the very same generator objects, with other per-call options
                        pre = [dict(is_dryrun=R.random() < 0.4, omit_serialization_support=R.random() < 0.5, embed_auditing_info=R.random() < 0.5)
                               for _ in range(R.choice([1, 2, 3]))]
                        variants.append((kind, run(types, pre_calls=pre)))
                    elif kind == "after_other_whitespace":
                        # the same language, configuration and templates were rendered earlier in this interpreter with other
                        # template whitespace options
                        ws0 = dict(cfgx.get("ws") or {})
                        other_ws = R.choice([w for w in (dict(trim_blocks=True), dict(lstrip_blocks=True), dict(trim_blocks=True, lstrip_blocks=True), {}) if w != ws0])
                        o = os.path.join(d, "out_other")
                        genrun.gen_inprocess(types, root_dir, o, lang, post_processors=pps(), templates_dir=tdir, options=cfgx.get("options"), gen_kwargs=other_ws)
                        shutil.rmtree(o, ignore_errors=True)
                        variants.append((kind, run(types)))
                    elif kind == "after_template_set_change":
                        # the user's template folder held fewer templates when a generator was built on it earlier in this interpreter
                        # (only a catch-all); the class-named templates were added since
                        tmut = os.path.join(d, "mut_%s_%d" % (tag, v))
                        os.makedirs(tmut, exist_ok=True)
                        with open(os.path.join(tmut, "Any.j2"), "w") as f:
                            f.write("catch-all {{ T }}\n")
                        try:
                            o = os.path.join(d, "out_other")
                            genrun.gen_inprocess(types, root_dir, o, lang, post_processors=pps(), templates_dir=tmut, **kwx)
                            shutil.rmtree(o, ignore_errors=True)
                        except Exception:
                            ctx.count("earlier_run_on_smaller_template_set_failed")
                        for fn in os.listdir(tdir):
                            shutil.copy(os.path.join(tdir, fn), os.path.join(tmut, fn))
                        os.unlink(os.path.join(tmut, "Any.j2"))
                        variants.append((kind, run(types, templates_dir=tmut)))
                    elif kind == "same_outdir_crlf":
                        variants.append((kind, run(types, crlf_first=True)))
                    elif kind == "same_generator_after_failure":
                        variants.append((kind, run(types, fail_first=R.choice([1, 1, 2, 3]))))
                    elif kind == "perm":
                        variants.append((kind, run(types, order_seed=R.random())))
                    elif kind == "subset":
                        sub = [t for t in types if R.random() < 0.5] or types[:1]
                        variants.append((kind, run(sub, order_seed=R.random())))
                    elif kind == "closed":
                        variants.append((kind, run(dep_closed_subset(types, R), order_seed=R.random())))
                    elif kind == "again":
                        variants.append((kind, run(types)))
                    elif kind == "after_other":
                        # something else runs in the same interpreter first: another language and another namespace
                        other = R.choice([l for l in ("c", "cpp", "py", "html") if l != lang])
                        oroot = R.choice(roots)
                        o = os.path.join(d, "out_other")
                        genrun.gen_inprocess(parsed[oroot], os.path.join(d, "dsdl", oroot), o, other)
                        shutil.rmtree(o, ignore_errors=True)
                        variants.append((kind, run(types)))
                    elif kind == "config_vs_fresh":
                        # a non-default stropping configuration, generated here after everything that ran before in this
                        # interpreter, against the same configuration generated alone in a fresh process
                        ov = {"stropping_prefix": "zq_", "encoding_prefix": "zY"}
                        o = os.path.join(d, "out_cfg")
                        files, ns = genrun.gen_inprocess(types, root_dir, o, lang, overrides=ov)
                        stem = ns.get_language_context().get_target_language().namespace_output_stem
                        shutil.rmtree(o, ignore_errors=True)
                        here = per_type_files(files, stem)
                        fresh = fresh_process_run(d, roots, root, lang, ov, o)
                        ctx.count("variant_runs[config_vs_fresh]")
                        for rel, content in here.items():
                            ctx.count("evaluations")
                            ctx.count("file_comparisons")
                            if fresh.get(rel) != content.decode("utf-8", "replace"):
                                a = (fresh.get(rel) or "").splitlines()
                                b = content.decode("utf-8", "replace").splitlines()
                                first = next((i for i, (x, y) in enumerate(zip(a, b)) if x != y), min(len(a), len(b)))
                                ctx.refute(None, "%s generated with a stropping override differs between this interpreter (after earlier runs) "
                                                 "and a fresh process (%s)" % (rel, lang),
                                           dict(set=idx, seed=ctx.seed, root=root, lang=lang, overrides=ov, file=rel, first_diff_line=first,
                                                fresh_line=a[first][:300] if first < len(a) else None, here_line=b[first][:300] if first < len(b) else None))
                            else:
                                ctx.count("file_agree")
                        continue
                    else:
                        # an earlier run of the same language with another stropping configuration
                        o = os.path.join(d, "out_other")
                        genrun.gen_inprocess(types, root_dir, o, lang, overrides={"stropping_prefix": "zq", "reserved_identifiers+": None} if False else
                                             {"stropping_prefix": "zq_"} if lang != "html" else {})
                        shutil.rmtree(o, ignore_errors=True)
                        variants.append((kind, run(types)))
                except Exception as e:
                    ctx.refute(None, "variant %s failed: %r" % (kind, e), dict(set=idx, root=root, lang=lang))
                    continue
            if cfgx or (tdir and R.random() < 0.5) or R.random() < 0.15:
                # what this interpreter produced for the configuration (after everything that ran in it before) against the same
                # configuration generated alone in a fresh process
                try:
                    fresh = fresh_process_run(d, roots, root, lang, None, os.path.join(d, "out_fresh"), dict(options=cfgx.get("options"), ws=cfgx.get("ws"), tdir=tdir, pp=ppname))
                    variants.append(("fresh_process", {k: v.encode("utf-8") for k, v in fresh.items()}))
                except Exception as e:
                    ctx.refute(None, "fresh-process run of the configuration failed: %r" % e, dict(set=idx, root=root, lang=lang))
            for kind, files in variants:
                ctx.count("variant_runs[%s]" % kind)
                for rel, content in files.items():
                    ctx.count("evaluations")
                    ctx.count("file_comparisons")
                    if rel not in base:
                        ctx.refute(None, "variant %s produced %s which the whole-namespace run did not" % (kind, rel), dict(set=idx, root=root, lang=lang))
                    elif base[rel] != content:
                        a = base[rel].decode("utf-8", "replace").splitlines()
                        b = content.decode("utf-8", "replace").splitlines()
                        first = next((i for i, (x, y) in enumerate(zip(a, b)) if x != y), min(len(a), len(b)))
                        ctx.refute(None, "%s differs between the whole namespace and variant '%s' (%s, %s templates, pp=%s)" % (
                            rel, kind, lang, "stress" if tdir else "built-in", ppname),
                            dict(set=idx, seed=ctx.seed, root=root, lang=lang, variant=kind, file=rel, first_diff_line=first,
                                 base_line=a[first] if first < len(a) else None, variant_line=b[first] if first < len(b) else None,
                                 dsdl=_dsdl_text(root_dir, rel)))
                    else:
                        ctx.count("file_agree")
                        ctx.distinct((idx, root, lang, tdir is not None, ppname, rel))
    ctx.sample({"set": idx, "roots": roots, "types": [str(t) for t in parsed[roots[0]]][:6]})
    return roots, parsed, d


FRESH = r"""
import sys, json, os
sys.path.insert(0, %(verif)r)
import pydsdl
from vlib import genrun, common
from vlib.props import c10
d, roots, root, lang, ov, out = json.loads(sys.argv[1])[:6]
more = (json.loads(sys.argv[1]) + [None])[6] or {}
types = pydsdl.read_namespace(os.path.join(d, "dsdl", root), [os.path.join(d, "dsdl", x) for x in roots if x != root], allow_unregulated_fixed_port_id=True)
files, ns = genrun.gen_inprocess(types, os.path.join(d, "dsdl", root), out, lang, overrides=ov, options=more.get("options"), gen_kwargs=more.get("ws"),
                                 templates_dir=more.get("tdir"), post_processors=c10.pps_of(more.get("pp")))
stem = ns.get_language_context().get_target_language().namespace_output_stem
print(json.dumps({k: v.decode("utf-8", "replace") for k, v in c10.per_type_files(files, stem).items()}))
"""


def pps_of(ppname):
    from nunavut._postprocessors import LimitEmptyLines, TrimTrailingWhitespace
    if ppname == "limit1":
        return [LimitEmptyLines(1)]
    if ppname == "trim_limit0":
        return [TrimTrailingWhitespace(), LimitEmptyLines(0)]
    return None


def fresh_process_run(d, roots, root, lang, ov, out, more=None):
    import json
    r = common.run([common.PY, "-c", FRESH % dict(verif=common.VERIF), json.dumps([d, roots, root, lang, ov, out, more])], env=common.child_env(), timeout=600)
    shutil.rmtree(out, ignore_errors=True)
    if r.returncode != 0:
        raise RuntimeError("fresh-process run failed: %s" % r.stderr[-500:])
    return json.loads(r.stdout.strip().splitlines()[-1])


def _dsdl_text(root_dir, rel):
    return "(see DSDL of set; regenerate with the same seed)"


def cli_whole_vs_subset(ctx, roots, parsed, d, idx):
    """Through the CLI: a pruned copy of the root namespace (dependency-closed) must give the same bytes for shared types."""
    R = random.Random("c10cli/%s/%s" % (ctx.seed, idx))
    root = roots[0]
    types = parsed[root]
    if len(types) < 2:
        return
    keep = dep_closed_subset(types, R)
    keepfiles = {os.path.realpath(str(t.source_file_path)) for t in keep}
    pruned = os.path.join(d, "pruned")
    shutil.copytree(os.path.join(d, "dsdl"), pruned)
    for dp, dn, fn in os.walk(os.path.join(pruned, root)):
        for f in fn:
            orig = os.path.realpath(os.path.join(d, "dsdl", os.path.relpath(os.path.join(dp, f), pruned)))
            if orig not in keepfiles:
                os.unlink(os.path.join(dp, f))
    # both runs see the inputs at the SAME absolute path (location independence is C07's business, not C10's)
    live = os.path.join(d, "dsdl")
    whole_dir = os.path.join(d, "dsdl_whole")
    for lang in (("c", "py") if ctx.quick else ("c", "cpp", "py", "html")):
        outs = []
        for which in ("whole", "pruned"):
            if which == "pruned":
                os.rename(live, whole_dir)
                os.rename(pruned, live)
            try:
                out = os.path.join(d, "cli_out_%s_%s" % (lang, which))
                cmd = ["-l", lang, "-O", out, os.path.join(live, root), "--allow-unregulated-fixed-port-id", "--experimental-languages"]
                for x in roots[1:]:
                    cmd += ["-I", os.path.join(live, x)]
                r = genrun.nnvg(cmd, cwd=d)
            finally:
                if which == "pruned":
                    os.rename(live, pruned)
                    os.rename(whole_dir, live)
            ctx.count("cli_runs")
            if r.returncode != 0:
                ctx.refute(None, "nnvg failed on the %s namespace" % which, dict(stderr=r.stderr[-1500:], lang=lang, set=idx))
                outs.append(None)
                continue
            outs.append(common.read_files(out))
        if None in outs:
            continue
        whole, sub = outs
        for t in keep:
            for rel, content in sub.items():
                pass
        nsfiles = ("__init__.py", "index.html")
        for rel, content in sub.items():
            if os.path.basename(rel) in nsfiles or "nunavut" in rel.split(os.sep)[0] or os.path.basename(rel).startswith("_namespace_"):
                continue
            ctx.count("evaluations")
            ctx.count("cli_file_comparisons")
            if whole.get(rel) != content:
                ctx.refute(None, "CLI: %s differs between whole namespace and dependency-closed subset (%s)" % (rel, lang), dict(set=idx, lang=lang, file=rel))
            else:
                ctx.count("cli_file_agree")


def run(ctx):
    ctx.rule = ("case = (namespace set, root, language, template set, post-processors, variant in {perm, subset, closed subset, again, after other "
                "language/namespace, after other configuration}); distinct = distinct per-type files whose bytes were compared and agreed")
    probes = Probes(ctx)
    nsets = ctx.pick(4, 40)
    for i in ["roles"] + list(range(nsets)):
        roots, parsed, d = one_set(ctx, i, probes)
        cli_whole_vs_subset(ctx, roots, parsed, d, i)
        shutil.rmtree(d, ignore_errors=True)
    probes.report()
    ctx.require("file_agree", 500)
    ctx.require("probe_unique_name_resets", 100)
    ctx.require("probe_limit_empty_lines_calls", 1000)
    ctx.require("cli_file_agree", 10)
    ctx.require("injected_generation_faults", 4)
