"""C14 - support-library bit primitives are correct for all offsets, lengths and values.

The support headers/modules are produced by the real `nnvg --generate-support only` for C (target_endianness any and little),
C++ and Python.  Drivers with a naive bit-by-bit reference call every primitive over exhaustive ranges of offsets, lengths and
buffer sizes with exact-size heap buffers (ASan/UBSan on the drivers) and compare: addressed bits right, every other bit untouched,
reads beyond the end zero, sign extension, too-small buffers refused; float16: all 65,536 halves round-trip, faithful rounding,
monotonicity, overflow to infinity, class preservation.
"""
import json
import os
import re
import subprocess

from vlib import build, common, genrun

LEVEL = "exploration"
MANIFEST = {
    "category": "exploration",
    "technique": "exhaustive-in-bounds runtime comparison of the real generated support primitives against a naive bit-level reference inside ASan/UBSan-instrumented drivers (C, C++) and a big-int reference (Python)",
    "text": "Bounds (exhaustive inside): nunavutCopyBits / copyTo for src and dst offsets 0..23 x lengths 0..80 x three prefill patterns; "
            "GetBits for buffer sizes 0..12 x offsets x lengths 0..80; Set/Get U/I for every length 0..64 x offsets 0..23 x boundary and "
            "random values x exact, short and generous buffers x zero-extended read-back through every getter width; SetBit/GetBit; "
            "setZeros (C++); F16/F32/F64 fields at offsets 0..23; all 2^16 halves; a strided sample (quick) or all 2^32 (thorough) "
            "single-precision inputs of Float16Pack. Python: offsets 0..15 x all lengths 1..64 x aligned/unaligned x signed/unsigned "
            "with truncated read-back, standard-width helpers, bit and primitive arrays.",
    "note": "Per-language documented contracts: C/C++ writers leave non-addressed bits untouched; the Python Serializer owns a zeroed buffer "
            "and must keep bits before the cursor and leave bits after the new cursor zero; float16 tie direction is not judged; "
            "a zero-length write may report either success or buffer-too-small.",
}
MANIFEST["text"] += " Support headers are also generated for c++20 and c++17-pmr and with the command line's --trim-blocks / --lstrip-blocks; the Python driver writes and reads every ordered pair of special float values back to back and all 65,536 halves in increasing and scrambled order."
MANIFEST["text"] += ' C++ support headers are also generated for little and big target endianness.'

HERE = os.path.join(common.VERIF, "vlib", "c14")


def gen_support(ctx, lang, flags, name):
    d = ctx.sub("sup_" + name)
    os.makedirs(os.path.join(d, "emptyroot"), exist_ok=True)
    r = genrun.nnvg(["-l", lang, "--experimental-languages", "--generate-support", "only", "-O", os.path.join(d, "out"), os.path.join(d, "emptyroot")] + flags, cwd=d)
    if r.returncode != 0:
        return None, r.stderr[-800:]
    return os.path.join(d, "out"), ""


def run_driver(args):
    binary, mode, shard, nshards, seed, thorough = args
    env = dict(os.environ, **build.SAN_ENV)
    try:
        p = subprocess.run([binary, mode, str(shard), str(nshards), str(seed), str(thorough)], capture_output=True, text=True, timeout=3300, env=env)
    except subprocess.TimeoutExpired:
        return dict(mode=mode, shard=shard, watchdog=True)
    counts = {m.group(1): int(m.group(2)) for m in re.finditer(r"^COUNT (\w+) (\d+)$", p.stdout, re.M)}
    mism = [l[9:] for l in p.stdout.splitlines() if l.startswith("MISMATCH ")]
    return dict(mode=mode, shard=shard, rc=p.returncode, counts=counts, mismatches=mism, stderr=p.stderr[-2500:])


def run(ctx):
    ctx.rule = ("case = one primitive call (function, offsets, length, buffer size, prefill, value); exhaustive inside the stated bounds; distinct = "
                "(target, primitive family, shard) runs whose every call agreed with the naive reference")
    ok, why = build.sanitizer_canary(ctx.sub("canary"))
    if not ok:
        ctx.inconclusive_because("sanitizer canary: " + why)
        return
    thorough = 0 if ctx.quick else 1
    targets = []
    for name, lang, flags in (("c_any", "c", []), ("c_little", "c", ["--target-endianness", "little"]), ("c_big", "c", ["--target-endianness", "big"]),
                              ("cpp14", "cpp", []), ("cpp17", "cpp", ["--language-standard", "c++17"]),
                              # the library's own assertions armed (a failing one aborts the driver): results may not depend on the option
                              ("c_asserts", "c", ["--enable-serialization-asserts"]), ("cpp14_asserts", "cpp", ["--enable-serialization-asserts"]),
                              # the other supported standards, and the template whitespace options of the command line (the support
                              # templates are rendered under them like any other): the primitives must come out the same
                              ("cpp20", "cpp", ["--language-standard", "c++20"]), ("cpp17pmr", "cpp", ["--language-standard", "c++17-pmr"]),
                              ("cpp14_little", "cpp", ["--target-endianness", "little"]), ("cpp17_big", "cpp", ["--language-standard", "c++17", "--target-endianness", "big"]),
                              ("c_little_trim", "c", ["--target-endianness", "little", "--trim-blocks"]),
                              ("c_any_trim_lstrip", "c", ["--trim-blocks", "--lstrip-blocks"]),
                              ("c_big_lstrip", "c", ["--target-endianness", "big", "--lstrip-blocks"]),
                              ("cpp20_trim_lstrip", "cpp", ["--language-standard", "c++20", "--trim-blocks", "--lstrip-blocks"])):
        out, err = gen_support(ctx, lang, flags, name)
        if out is None:
            ctx.refute(None, "support generation failed for %s" % name, dict(stderr=err))
            continue
        is_cpp = lang == "cpp"
        kinds = ["asan"] + ([] if ctx.quick else ["gcc"])
        for kind in kinds:
            binary = os.path.join(ctx.scratch, "drv_%s_%s" % (name, kind))
            okb, berr = build.compile_unit(os.path.join(HERE, "driver.cpp" if is_cpp else "driver.c"), binary, [out, HERE], kind, cxx=is_cpp,
                                           std=("c++20" if "20" in name else "c++17" if "17" in name else "c++14") if is_cpp else "c11",
                                           extra=["-include", os.path.join(HERE, "assert_hook.h")] if "asserts" in name else ())
            if not okb:
                ctx.refute(None, "driver does not compile against the generated %s support header" % name, dict(stderr=berr[-1500:]))
                continue
            targets.append((name + ("" if kind == "asan" else "_" + kind), binary, is_cpp))
    jobs = []
    for name, binary, is_cpp in targets:
        modes = ["copy", "getbits", "int", "f16", "float"] + (["zeros"] if is_cpp else [])
        for mode in modes:
            nsh = 16 if (mode == "f16" and thorough and name in ("c_any", "cpp14")) else (4 if mode == "int" else 2)
            # the 2^32 sweep only on one C and one C++ target; others sample
            th = thorough if not (mode == "f16" and name not in ("c_any", "cpp14")) else 0
            # quick tier still runs the full exhaustive bounds for the cheap bit primitives
            th_eff = 1 if mode in ("copy", "getbits", "zeros") else th
            for s in range(nsh):
                jobs.append((name, (binary, mode, s, nsh, ctx.seed, th_eff)))
    results = common.pmap(run_driver, [j for _, j in jobs])
    for (name, j), res in zip(jobs, results):
        ctx.count("driver_runs")
        if res.get("watchdog"):
            ctx.inconclusive_because("%s %s shard %d: watchdog" % (name, res["mode"], res["shard"]))
            continue
        calls = res["counts"].get("calls", 0)
        ctx.count("evaluations", calls)
        ctx.count("primitive_calls[%s]" % name, calls)
        ctx.count("too_small_cases", res["counts"].get("too_small_cases", 0))
        if res["rc"] != 0:
            kind, frames = build.summarize_report(res["stderr"])
            ctx.refute(None, "%s: %s in %s during the '%s' primitives" % (name, kind, frames[:3], res["mode"]), dict(target=name, mode=res["mode"], shard=res["shard"], report=res["stderr"]))
            continue
        for m in res["mismatches"][:6]:
            ctx.refute(None, "%s: %s" % (name, m), dict(target=name, mode=res["mode"], shard=res["shard"]))
        if not res["mismatches"]:
            ctx.count("driver_runs_clean")
            ctx.distinct((name, res["mode"], res["shard"]))
    # ---- Python
    out, err = gen_support(ctx, "py", [], "py")
    if out is None:
        ctx.refute(None, "support generation failed for py", dict(stderr=err))
    else:
        env = common.child_env()
        env["PYTHONPATH"] = os.pathsep.join([out, os.path.join(common.VERIF, ".deps")])
        nproc = ctx.pick(4, 16)
        procs = [subprocess.Popen([common.PY, os.path.join(HERE, "pydriver.py"), str(ctx.seed * 100 + i), str(thorough), str(i), str(nproc)], stdout=subprocess.PIPE, stderr=subprocess.PIPE, text=True, env=env)
                 for i in range(nproc)]
        for i, p in enumerate(procs):
            try:
                o, e = p.communicate(timeout=3300)
            except subprocess.TimeoutExpired:
                p.kill()
                ctx.inconclusive_because("python driver watchdog")
                continue
            ctx.count("driver_runs")
            if p.returncode != 0:
                ctx.refute(None, "py: primitives driver failed: %s" % e.strip().splitlines()[-1][:200] if e.strip() else "py driver failed", dict(stderr=e[-1500:]))
                continue
            j = json.loads(o.strip().splitlines()[-1])
            ctx.count("evaluations", j["counters"]["calls"])
            ctx.count("primitive_calls[py]", j["counters"]["calls"])
            ctx.extra["numpy_version"] = j["numpy"]
            for m in j["mismatches"][:6]:
                ctx.refute(None, "py: " + m, dict(target="py", seed=ctx.seed * 100 + i))
            if not j["mismatches"]:
                ctx.count("driver_runs_clean")
                ctx.distinct(("py", i))
    ctx.extra["exhaustive"] = True
    ctx.extra["exhaustive_bounds"] = MANIFEST["text"]
    ctx.sample({"call": "nunavutCopyBits(dst, dst_off=13, len=21, src, src_off=5), dst prefilled 0xFF, both buffers exact-size heap allocations",
                "judged": "every bit of dst: addressed bits equal the source bits, all others unchanged; ASan watches the red zones"})
    ctx.require("primitive_calls[c_any]", 1000000)
    ctx.require("primitive_calls[cpp14]", 1000000)
    ctx.require("primitive_calls[py]", 100000)
    ctx.require("too_small_cases", 10000)
    ctx.require("driver_runs_clean", 20)
