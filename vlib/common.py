"""Shared core: context (seed, tier, scratch), three-valued verdicts, findings protocol, evidence writer."""
import atexit
import collections
import concurrent.futures
import hashlib
import json
import multiprocessing
import os
import random
import re
import shutil
import signal
import subprocess
import sys
import tempfile
import threading
import time

VERIF = os.path.dirname(os.path.dirname(os.path.abspath(__file__)))
REPO = os.environ.get("VERIF_REPO", "/repo")
PY = "/venv/bin/python"
NCPU = int(os.environ.get("VERIF_JOBS", "0")) or min(16, os.cpu_count() or 4)


def child_env(**extra):
    """Environment for child interpreters that run the real generator from /repo's working tree."""
    env = dict(os.environ)
    env["PYTHONPATH"] = os.pathsep.join([os.path.join(REPO, "src"), VERIF, os.path.join(VERIF, ".deps")])
    env["PYTHONDONTWRITEBYTECODE"] = "1"
    env.setdefault("PYTHONHASHSEED", "0")
    env.pop("NUNAVUT_EXTRA_DEPENDENCIES", None)
    for k, v in extra.items():
        if v is None:
            env.pop(k, None)
        else:
            env[k] = str(v)
    return env


def sha(b):
    if isinstance(b, str):
        b = b.encode("utf-8", "surrogatepass")
    return hashlib.sha256(b).hexdigest()


def jdump(o):
    def default(x):
        if isinstance(x, (bytes, bytearray)):
            return {"hex": bytes(x).hex()}
        if isinstance(x, (set, frozenset)):
            return sorted(map(str, x))
        return repr(x)
    return json.dumps(o, indent=1, default=default, sort_keys=False)


class Findings:
    """Parser of /verif/KNOWN_FINDINGS.txt.  `known:` lines suppress (as KNOWN-FINDING) refutations whose mechanism
    key matches; `fixed:` lines are documentation only and suppress nothing."""

    def __init__(self, path=None):
        self.known = collections.defaultdict(dict)
        self.fixed = collections.defaultdict(list)
        path = path or os.path.join(VERIF, "KNOWN_FINDINGS.txt")
        if not os.path.exists(path):
            return
        for line in open(path, encoding="utf-8"):
            line = line.strip()
            if not line or line.startswith("#"):
                continue
            m = re.match(r"known:\s+property=(C\d+)\s+key=(\S+)\s+(.*)$", line)
            if m:
                self.known[m.group(1)][m.group(2)] = m.group(3)
                continue
            m = re.match(r"fixed:\s+property=(C\d+)\s+(\S+)\s+(.*)$", line)
            if m:
                self.fixed[m.group(1)].append((m.group(2), m.group(3)))


class Ctx:
    def __init__(self, pid, tier, seed, level="exploration", replay=None):
        self.pid, self.tier, self.seed, self.level = pid, tier, seed, level
        self.quick = tier == "quick"
        self.replay = replay
        self.t0 = time.time()
        self.rng = random.Random("%s/%s" % (pid, seed))
        self.counters = collections.Counter()
        self._distinct = set()
        self.samples = []
        self.violations = []     # (mech, what, replay path)
        self.known_hits = collections.Counter()
        self.inconclusive = []
        self.requirements = []   # (counter, minimum)
        self.assumptions = []
        self.extra = {}
        self.rule = ""
        self.findings = Findings()
        self._lock = threading.RLock()
        base = os.environ.get("VERIF_SCRATCH") or tempfile.gettempdir()
        self.scratch = tempfile.mkdtemp(prefix="nvverif_%s_" % pid, dir=base)
        atexit.register(self.cleanup)
        signal.signal(signal.SIGTERM, lambda *a: sys.exit(143))

    # ------------------------------------------------------------------ bookkeeping
    def cleanup(self):
        if os.environ.get("VERIF_KEEP"):
            return
        subprocess.run(["chmod", "-R", "u+rwx", self.scratch], stderr=subprocess.DEVNULL)
        shutil.rmtree(self.scratch, ignore_errors=True)

    def sub(self, name):
        d = os.path.join(self.scratch, name)
        os.makedirs(d, exist_ok=True)
        return d

    def pick(self, quick, thorough):
        return quick if self.quick else thorough

    def count(self, name, n=1):
        with self._lock:
            self.counters[name] += n

    def merge_counts(self, c):
        for k, v in c.items():
            self.counters[k] += v

    def distinct(self, key):
        self._distinct.add(key if isinstance(key, (str, int, tuple)) else sha(repr(key)))

    def distinct_many(self, keys):
        for k in keys:
            self.distinct(k)

    def sample(self, s, limit=6):
        if len(self.samples) < limit:
            self.samples.append(s)

    def require(self, counter, minimum):
        """A deciding monitor that observed fewer than `minimum` events makes the run inconclusive."""
        self.requirements.append((counter, minimum))

    def inconclusive_because(self, reason):
        self.inconclusive.append(reason)

    # ------------------------------------------------------------------ refutations
    def refute(self, mech, what, witness):
        """Record a refuting observation.  `mech` is the mechanism key computed by the property's classifier from
        the structure of the witness (never from hashes or random values), or None when no known mechanism fits."""
        with self._lock:
            return self._refute(mech, what, witness)

    def _refute(self, mech, what, witness):
        known = self.findings.known.get(self.pid, {})
        if mech is not None and mech in known:
            self.known_hits[mech] += 1
            if os.environ.get("VERIF_DUMP_KNOWN"):     # debugging aid: every observation attributed to a known finding
                with open(os.environ["VERIF_DUMP_KNOWN"], "a", encoding="utf-8") as f:
                    f.write(jdump({"mechanism": mech, "what": what, "witness": witness}).replace("\n", " ") + "\n")
            if self.known_hits[mech] <= 3:
                self.extra.setdefault("known_finding_witnesses", {}).setdefault(mech, []).append(_short(what))
            return False
        n = len(self.violations)
        self.count("violations")
        if n < int(os.environ.get("VERIF_MAX_REPLAY", "25")):
            d = os.path.join(VERIF, "replay", self.pid)
            os.makedirs(d, exist_ok=True)
            path = os.path.join(d, "seed%d_%s_%d.json" % (self.seed, self.tier, n))
            with open(path, "w", encoding="utf-8") as f:
                f.write(jdump({"property": self.pid, "seed": self.seed, "tier": self.tier, "mechanism": mech,
                               "what": what, "witness": witness}))
            self.violations.append((mech, what, path))
            print("VIOLATION property=%s replay=%s" % (self.pid, path), flush=True)
            print("  what: %s" % _short(what, 600), flush=True)
        return True

    # ------------------------------------------------------------------ finish
    def finish(self):
        wall = time.time() - self.t0
        for counter, minimum in self.requirements:
            if self.counters[counter] < minimum:
                self.inconclusive.append("monitor '%s' observed %d < %d events" % (counter, self.counters[counter], minimum))
        known = self.findings.known.get(self.pid, {})
        for mech, n in sorted(self.known_hits.items()):
            print("KNOWN-FINDING: property=%s key=%s %s (observed %d times in this run)" % (self.pid, mech, known[mech], n))
        nviol = self.counters["violations"]
        if nviol:
            verdict, rc = "violated", 1
        elif self.inconclusive:
            verdict, rc = "inconclusive", 2
            for r in self.inconclusive:
                print("INCONCLUSIVE property=%s reason=%s" % (self.pid, r))
        else:
            verdict, rc = "held", 0
        evaluations = int(self.counters.get("evaluations", 0))
        cov = {
            "evaluations": evaluations,
            "distinct_nontrivial": len(self._distinct),
            "rule": self.rule,
            "samples": self.samples or ["(none recorded)"],
            "counters": dict(sorted(self.counters.items())),
            "verdict": verdict,
            "known_findings_observed": dict(self.known_hits),
            "inconclusive_reasons": self.inconclusive,
        }
        cov.update(self.extra)
        ev = {
            "property_id": self.pid, "tier": self.tier, "seed": self.seed, "level": self.level,
            "coverage": cov, "assumptions": self.assumptions, "wall_s": round(wall, 2), "violations": int(nviol),
        }
        evdir = os.environ.get("VERIF_EVIDENCE_DIR") or os.path.join(VERIF, "evidence")     # sweeps over seeds write elsewhere
        os.makedirs(evdir, exist_ok=True)
        with open(os.path.join(evdir, "%s.json" % self.pid), "w", encoding="utf-8") as f:
            f.write(jdump(ev) + "\n")
        print("%s %s tier=%s seed=%d evaluations=%d distinct=%d wall=%.1fs counters=%s" % (
            self.pid, verdict.upper(), self.tier, self.seed, evaluations, len(self._distinct), wall,
            json.dumps(dict(sorted(self.counters.items())))), flush=True)
        return rc


def _short(x, n=300):
    s = x if isinstance(x, str) else json.dumps(x, default=repr)
    return s if len(s) <= n else s[:n] + "…"


# ---------------------------------------------------------------------- parallel helpers
def pmap(fn, items, workers=None, chunksize=1):
    """Ordered parallel map over a fork pool.  A dying worker raises BrokenProcessPool (no silent hang)."""
    items = list(items)
    workers = min(workers or NCPU, max(1, len(items)))
    if workers <= 1 or os.environ.get("VERIF_SERIAL"):
        return [fn(x) for x in items]
    ctx = multiprocessing.get_context("fork")
    with concurrent.futures.ProcessPoolExecutor(max_workers=workers, mp_context=ctx) as ex:
        return list(ex.map(fn, items, chunksize=chunksize))


def run(cmd, timeout=600, **kw):
    """subprocess.run with text capture and a generous wall-clock watchdog (a firing watchdog is inconclusive)."""
    kw.setdefault("capture_output", True)
    kw.setdefault("text", True)
    try:
        return subprocess.run(cmd, timeout=timeout, **kw)
    except subprocess.TimeoutExpired as e:
        class R:
            returncode = -999
            stdout = (e.stdout.decode("utf-8", "replace") if isinstance(e.stdout, bytes) else e.stdout) or ""
            stderr = "WATCHDOG after %ss" % timeout
        return R()


def snapshot(root, content=True):
    """Recursive snapshot {relpath: (type, mode, size, sha256)} of a directory tree."""
    out = {}
    for dp, dn, fn in os.walk(root):
        for n in dn + fn:
            p = os.path.join(dp, n)
            rel = os.path.relpath(p, root)
            st = os.lstat(p)
            if os.path.islink(p):
                out[rel] = ("l", st.st_mode & 0o7777, 0, os.readlink(p))
            elif os.path.isdir(p):
                out[rel] = ("d", st.st_mode & 0o7777, 0, "")
            else:
                h = ""
                if content:
                    try:
                        with open(p, "rb") as f:
                            h = hashlib.sha256(f.read()).hexdigest()
                    except OSError as e:
                        h = "unreadable:%s" % e.errno
                out[rel] = ("f", st.st_mode & 0o7777, st.st_size, h)
    return out


def read_files(root, exts=None):
    out = {}
    for dp, dn, fn in os.walk(root):
        for n in fn:
            if exts and not n.endswith(tuple(exts)):
                continue
            p = os.path.join(dp, n)
            with open(p, "rb") as f:
                out[os.path.relpath(p, root)] = f.read()
    return out
