"""E1 - seeded generator of DSDL namespace sets + fixed template-branch coverage corpus.

The front end's acceptance (pydsdl.read_namespace) is the definition of "valid input": drafts are parsed by the
caller and rejected drafts are redrawn.  Two profiles:
  hostile - keyword / reserved-pattern names, hostile documentation, deprecated types, extreme constants
  codec   - synthetic names, benign constants (used by the codec monitors so that unrelated build defects recorded in
            KNOWN_FINDINGS.txt cannot blind them); constructs are re-enabled through `allow`.
"""
import collections
import os
import random
import re

import pydsdl

KW = ['if', 'class', 'str', 'del', 'register', 'int8_t', 'strcopy', 'EMACRO', '_Foo', 'None_', 'len', 'print',
      'double', 'namespace', 'union_', 'try', 'import', 'is', 'memset', 'toupper', 'atomic_x', 'cnd_a', 'SIGX',
      'TIME_A', 'E2BIG', 'lambda', 'yield', 'id', 'list', 'type_', 'template_', 'new', 'delete', 'operator',
      'and_eq', 'xor', 'final', 'override', 'module', 'pascal', 'error', 'line', 'defined', 'elif', 'char8_t',
      'restrict', '_Bool_x', 'NULL_', 'true_', 'value', 'count', 'elements', '_tag', 'tag', 'self_', 'obj',
      'buffer', 'out_obj', 'capacity_bytes', 'offset_bits', 'isalpha', 'strlen', 'wcsx', 'mtx_q', 'thrd_a',
      'uint8_t', 'inline', 'static', 'void_', 'while', 'for', 'in', 'as', 'with',
      'global', 'nonlocal', 'pass', 'assert', 'async', 'await', 'True_', 'False_', 'dict', 'object',
      'concept', 'requires', 'co_await', 'export', 'friend', 'typename', 'this', 'virtual', 'constexpr',
      'nullptr', 'alignas', 'decltype', 'noexcept', 'static_assert', 'thread_local', 'bitand', 'compl', 'not_eq']
# reserved only through a *pattern* of one identifier category (function / typedef / macro / enum), not keywords: the same
# token is stropped differently depending on the role it is used in
PATTERN_NAMES = ['strcopy', 'isalpha', 'strlen', 'memset', 'toupper', 'int8_t', 'uint8_t', 'atomic_x', 'cnd_a', 'mtx_q', 'thrd_a',
                 'SIGX', 'TIME_A', 'E2BIG', 'EMACRO', 'wcsx', 'torque', 'string', 'memory', 'isolated', 'tools', 'memory_order_q',
                 'tss_q', 'FE_Q', 'LC_Q', 'PRIq', 'SCNq', 'INT8_MAX', 'ATOMIC_Q']
PLAIN = ['alphaq', 'betaq', 'gammaq', 'deltaq', 'fooq', 'barq', 'bazq', 'quxq', 'speedq', 'tempq', 'voltq', 'xq',
         'yq', 'zq', 'wq', 'dataq', 'payloadq', 'flagsq', 'modeq', 'statusq', 'kappaq', 'lambdq', 'sigmaq', 'thetaq']
DOCS = ['doc </pre><script>alert(1)</script> & "q" \'s\'', 'plain doc', 'a <b>bold</b> move', 'x < y && y > z',
        '--> ]]> &amp; &lt; &#x41;', 'very ' + 'long ' * 60 + 'line', 'unicode é ü 漢 ☃', '<img src=x onerror=alert(2)>',
        '{{ jinja }} {% raw %}', '`code` *emph* :role:`x`']
DOCS_HOSTILE_C = ['ends with backslash \\', 'trigraph ??/ and */ and /*', '*/ int x; /*']


class Gen:
    def __init__(self, seed, profile='codec', allow=(), docs=None):
        self.r = random.Random("dsdlgen/%s/%s" % (seed, profile))
        self.profile = profile
        self.hostile = profile == 'hostile'
        self.allow = set(allow)
        self.docs = self.hostile if docs is None else docs
        # a small theme of reserved-ish names reused across namespaces, types and fields of one set, so the same token
        # shows up in different identifier roles (path component, type name, field, constant)
        self.theme = self.r.sample(PATTERN_NAMES, 3) + self.r.sample(KW, 3)
        self.ns_names = set()

    def name(self, used, cap=False, p_theme=0.3, is_ns=False):
        r = self.r
        for _ in range(200):
            c = r.random()
            n = r.choice(self.theme if (self.hostile and c < p_theme) else KW if (self.hostile and c < p_theme + 0.15) else PLAIN)
            if n in self.theme and r.random() < 0.7:
                # themed names are used verbatim (no digit suffix) so that they really collide across roles
                if cap:
                    n = n[0].upper() + n[1:]
                k = n.lower().strip('_')
                if k not in used and re.fullmatch(r'[A-Za-z_][A-Za-z0-9_]*', n):
                    used.add(k)
                    return n
                continue
            if r.random() < 0.4:
                n += r.choice(['0', '1', '2', '3', '4', '5', '6', '7', '8', '9', '01', '1', '001', '10'])
            if cap:
                n = n[0].upper() + n[1:]
            k = n.lower().strip('_')
            if not self.hostile and k in self.ns_names and not is_ns:
                continue     # codec profile: attributes/types are never named like a namespace component (a C06 matter)
            if k not in used and re.fullmatch(r'[A-Za-z_][A-Za-z0-9_]*', n):
                used.add(k)
                if is_ns:
                    self.ns_names.add(k)
                return n
        raise RuntimeError("name pool exhausted")

    def prim(self):
        r = self.r
        c = r.random()
        if c < 0.1:
            return 'bool'
        if c < 0.35:
            w = r.choice([r.randint(1, 64), r.choice([1, 7, 8, 9, 13, 16, 17, 31, 32, 33, 63, 64])])
            return ('truncated ' if r.random() < 0.4 else 'saturated ' if r.random() < 0.3 else '') + 'uint%d' % w
        if c < 0.55:
            w = r.choice([r.randint(2, 64), r.choice([2, 7, 8, 9, 13, 16, 17, 31, 32, 33, 63, 64])])
            return ('saturated ' if r.random() < 0.3 else '') + 'int%d' % w
        if c < 0.7:
            return ('truncated ' if r.random() < 0.5 else '') + 'float%d' % r.choice([16, 32, 64])
        if c < 0.75:
            return 'byte' if r.random() < 0.5 else 'utf8'
        return None

    def field_type(self, avail):
        r = self.r
        p = self.prim()
        comp = False
        if p is None:
            if avail and r.random() < 0.85:
                t = r.choice(avail)
                p = '%s.%d.%d' % (t[0], t[1], t[2])
                comp = True
            else:
                p = 'uint8'
        if p in ('byte', 'utf8'):
            n = r.randint(1, 12)
            return '%s[%s%d]' % (p, r.choice(['', '<=', '<']) if p == 'byte' else r.choice(['<=', '<']), n + 1)
        if r.random() < 0.3:
            n = r.randint(1, 3) if comp else r.choice([1, 2, 3, 5, 8, 9, 17, 255, 256, 300])
            return '%s[%s%d]' % (p, r.choice(['', '<=', '<=', '<']), n + 1)
        return p

    CONSTS_BENIGN = ['uint8 %s = 255', 'uint64 %s = 18446744073709551615', 'float32 %s = 3.14159265',
                     'bool %s = true', 'int8 %s = -128', 'float16 %s = 65504.0', "uint8 %s = '<'",
                     'int33 %s = -4294967296', 'float64 %s = 1/3', 'int64 %s = 9223372036854775807',
                     'uint16 %s = 0x1234', 'float32 %s = -0.5', 'int16 %s = -32768', 'bool %s = false',
                     'float64 %s = 2.718281828459045', 'uint32 %s = 4294967295', "uint8 %s = '\\''",
                     'int64 %s = -9223372036854775807', 'float64 %s = 1e300', 'float32 %s = 1e-30']
    CONSTS_EXTREME = ['int64 %s = -9223372036854775808', 'float64 %s = 1e-300', 'float64 %s = 1e-320',
                      'float64 %s = 1.7976931348623157e308', 'float32 %s = 3.4028234e38', 'float16 %s = -65504.0']

    def body(self, avail, union=False, top=True):
        r = self.r
        lines = []
        used = set()
        if self.docs and r.random() < 0.6:
            pool = DOCS + (DOCS_HOSTILE_C if 'hostile_c_docs' in self.allow else [])
            for _ in range(r.randint(1, 2)):
                lines.append('# ' + r.choice(pool))
        nf = r.randint(2, 6) if union else r.randint(0, 7)
        if union:
            lines.append('@union')
        for _ in range(nf):
            if not union and r.random() < 0.25:
                lines.append('void%d' % r.choice([1, 2, 3, 7, 8, 9, 31, 64]))
            ft = self.field_type(avail)
            doc = ''
            if self.docs and r.random() < 0.3:
                doc = '  # ' + r.choice(DOCS)
            lines.append('%s %s%s' % (ft, self.name(used), doc))
        pool = self.CONSTS_BENIGN + (self.CONSTS_EXTREME if (self.hostile or 'extreme_consts' in self.allow) else [])
        for _ in range(r.randint(0, 3)):
            lines.append(r.choice(pool) % self.name(used).upper())
        lines.append('@sealed')
        deprecated = False
        if top and (self.hostile or 'deprecated' in self.allow) and r.random() < 0.1:
            lines.insert(0, '@deprecated')
            deprecated = True
        return '\n'.join(lines) + '\n', deprecated

    def build(self, root_dir, nroots=2, types_per_root=(3, 8), service_p=0.12, union_p=0.25):
        r = self.r
        avail = []
        roots = []
        usedroot = set()
        for _ in range(nroots):
            root = self.name(usedroot, is_ns=True)
            roots.append(root)
            nss = [[root]]
            usedns = collections.defaultdict(set)
            for _ in range(r.randint(0, 3)):
                base = r.choice(nss)
                nss.append(base + [self.name(usedns['.'.join(base)], p_theme=0.6, is_ns=True)])
                if r.random() < 0.3:  # possibly an empty intermediate namespace
                    nss.append(nss[-1] + [self.name(usedns['.'.join(nss[-1])], p_theme=0.6, is_ns=True)])
            used_t = collections.defaultdict(set)
            for _ in range(r.randint(*types_per_root)):
                ns = r.choice(nss)
                # a type may not be named like a sub-namespace of its namespace
                short = self.name(used_t['.'.join(ns)] | usedns['.'.join(ns)], cap=True)
                used_t['.'.join(ns)].add(short.lower().strip('_'))
                major, minor = r.choice([(1, 0), (0, 1), (2, 3)])
                union = r.random() < union_p
                service = r.random() < service_p
                d = os.path.join(root_dir, *ns)
                os.makedirs(d, exist_ok=True)
                pid = ''
                if (self.hostile or 'port_id' in self.allow) and r.random() < 0.15:
                    pid = '%d.' % (r.randint(0, 255) if service else r.randint(0, 6143))
                if service:
                    a, dep = self.body(avail)
                    b, _ = self.body(avail, union=(r.random() < 0.3), top=False)
                    text = a + '---\n' + b
                else:
                    text, dep = self.body(avail, union=union)
                fn = '%s%s.%d.%d.dsdl' % (pid, short, major, minor)
                with open(os.path.join(d, fn), 'w', encoding='utf-8') as f:
                    f.write(text)
                if not service and not dep:
                    avail.append(('.'.join(ns + [short]), major, minor))
                # another major version of the same type with an unrelated body (different dependencies)
                if not pid and r.random() < 0.2:
                    major2 = major + r.randint(1, 3)
                    text2, dep2 = self.body(avail, union=(r.random() < union_p))
                    with open(os.path.join(d, '%s.%d.%d.dsdl' % (short, major2, 0)), 'w', encoding='utf-8') as f:
                        f.write(text2)
                    if not dep2:
                        avail.append(('.'.join(ns + [short]), major2, 0))
        return roots


def read_all(root_dir, roots):
    """Parse every root namespace with the others as lookup directories. Returns {root: [types]}."""
    out = {}
    for root in roots:
        look = [os.path.join(root_dir, x) for x in roots if x != root]
        out[root] = pydsdl.read_namespace(os.path.join(root_dir, root), look, allow_unregulated_fixed_port_id=True)
    return out


def composite_deps(t):
    parts = [t.request_type, t.response_type] if isinstance(t, pydsdl.ServiceType) else [t]
    for p in parts:
        inner = p.inner_type if isinstance(p, pydsdl.DelimitedType) else p
        for f in inner.fields_except_padding:
            dt = f.data_type
            while isinstance(dt, pydsdl.ArrayType):
                dt = dt.element_type
            if isinstance(dt, pydsdl.CompositeType):
                yield dt


def apply_extents(root_dir, roots, seed, frac=0.5):
    """Second pass: turn a fraction of sealed definitions into delimited ones with a sufficient extent."""
    r = random.Random("extents/%s" % seed)
    want = {}
    for dp, dn, fn in sorted(os.walk(root_dir)):
        dn.sort()
        for f in sorted(fn):
            if f.endswith('.dsdl') and r.random() < frac:
                want[os.path.realpath(os.path.join(dp, f))] = False
    for _ in range(10):
        progressed = False
        parsed = {}
        for ts in read_all(root_dir, roots).values():
            for t in ts:
                parsed[os.path.realpath(str(t.source_file_path))] = t

        def deps_done(t):
            for dt in composite_deps(t):
                sp = os.path.realpath(str(dt.source_file_path))
                if sp in want and not want[sp]:
                    return False
                if not deps_done(dt):
                    return False
            return True
        elig = []
        for path, done in sorted(want.items()):
            if done:
                continue
            t = parsed.get(path)
            if t is None:
                want[path] = True
                continue
            if deps_done(t):
                elig.append((path, t))
        for path, t in elig:
            text = open(path, encoding='utf-8').read()
            parts = [t.request_type, t.response_type] if isinstance(t, pydsdl.ServiceType) else [t]
            secs = text.split('---\n')
            new = []
            for sec, p in zip(secs, parts):
                mx = (p.bit_length_set.max + 7) // 8
                ext = mx + r.choice([0, 0, 1, 3, 16])
                new.append(sec.replace('@sealed', '@extent %d * 8' % ext))
            with open(path, 'w', encoding='utf-8') as f:
                f.write('---\n'.join(new))
            want[path] = True
            progressed = True
        if not progressed:
            break


def make_set(root_dir, seed, profile='codec', nroots=2, allow=(), extents=True, docs=None, **kw):
    """Generate, parse, redraw on rejection.  Returns (roots, {root: types}, n_rejected)."""
    rejected = 0
    for attempt in range(20):
        import shutil
        shutil.rmtree(root_dir, ignore_errors=True)
        os.makedirs(root_dir)
        g = Gen("%s/%d" % (seed, attempt), profile, allow, docs)
        try:
            roots = g.build(root_dir, nroots, **kw)
            if extents:
                apply_extents(root_dir, roots, seed)
            return roots, read_all(root_dir, roots), rejected
        except pydsdl.FrontendError:
            rejected += 1
    raise RuntimeError("front end rejected 20 drafts in a row")


# ------------------------------------------------------------------------------------------------- fixed corpus
CORPUS = {
    'cov/Empty.1.0.dsdl': '@sealed\n',
    'cov/Prims.1.0.dsdl': '''# all primitive kinds, byte aligned
bool b0
void7
uint8 u8
uint16 u16
uint32 u32
uint64 u64
int8 i8
int16 i16
int32 i32
int64 i64
float16 f16
float32 f32
float64 f64
truncated uint8 tu8
truncated uint16 tu16
truncated uint32 tu32
truncated uint64 tu64
truncated float16 tf16
truncated float32 tf32
truncated float64 tf64
uint8 C_A = 255
int16 C_B = -32768
float32 C_C = 0.1
float64 C_D = 1/3
bool C_E = true
uint8 C_F = 'x'
uint64 C_G = 18446744073709551615
int64 C_H = -9223372036854775807
@sealed
''',
    'cov/Odd.1.0.dsdl': '''# non-standard widths, unaligned
void1
uint3 u3
int5 i5
truncated uint13 tu13
saturated int13 si13
uint1 u1
int2 i2
float16 f16
uint33 u33
int33 i33
float32 f32
truncated uint63 tu63
int63 i63
float64 f64
bool flag
uint64 u64
int64 i64
uint7 u7
saturated uint17 su17
truncated uint24 tu24
int24 i24
uint48 u48
int56 i56
@sealed
''',
    'cov/Arrays.1.0.dsdl': '''bool[9] fb
uint8[3] fu8
uint16[2] fu16
int7[3] fi7
float16[2] ff16
float32[2] ff32
float64[2] ff64
bool[<=9] vb
uint8[<=5] vu8
byte[<=4] vby
utf8[<=6] vs
int13[<=3] vi13
uint64[<=2] vu64
float16[<=3] vf16
float32[<3] vf32
float64[<=1] vf64
truncated uint5[<=7] vtu5
@sealed
''',
    'cov/UArrays.1.0.dsdl': '''void3
bool[9] fb
uint8[3] fu8
int7[3] fi7
float16[2] ff16
float32[2] ff32
float64[2] ff64
bool[<=9] vb
uint8[<=5] vu8
utf8[<=6] vs
int13[<=3] vi13
uint64[<=2] vu64
float32[<3] vf32
uint16[<=300] big16
@sealed
''',
    'cov/AlignedOdd.1.0.dsdl': '''# non-standard widths that start on a byte boundary (scalars and array elements), wide padding in the middle and at the tail
int24 i24
uint40 u40
int56 i56
int12 i12
void4
saturated int17 si17
void7
truncated uint24 tu24
int24[2] ai24
int40[<=3] vi40
uint24[<=2] vu24
void16
int9 i9
void7
int48 i48
void24
@sealed
''',
    # three types whose offsets after the first field have the same smallest and largest element but differ in alignment
    # ({8,16,24} / {8,12,...,24} / {8,9,...,24}): whatever keys a decision on a coarse summary of an offset set confuses them
    'cov/TwinOffA.1.0.dsdl': '''uint8[<=2] a
float16 x
int13 i
uint8[2] arr
uint16 u
bool[<=3] bs
uint8 t
@sealed
''',
    'cov/TwinOffB.1.0.dsdl': '''uint4[<=4] a
float16 x
int13 i
uint8[2] arr
uint16 u
bool[<=3] bs
uint8 t
@sealed
''',
    'cov/TwinOffC.1.0.dsdl': '''bool[<=16] a
float16 x
int13 i
uint8[2] arr
uint16 u
bool[<=3] bs
uint8 t
@sealed
''',
    'cov/TailOdd.1.0.dsdl': '''# the last field is a byte aligned integer of a non-standard width (as in uavcan.time.Synchronization)
uint8 a
truncated uint56 t56
@sealed
''',
    'cov/TailOdd24.1.0.dsdl': '''uint16 a
int24 last
@sealed
''',
    'cov/TailOddHolder.1.0.dsdl': '''uint8 x
uint40 u40
cov.TailOdd24.1.0[<=2] tail
@sealed
''',
    'cov/PadTail.1.0.dsdl': '''# ends with wide, byte aligned padding; used as the last field and as the last array element elsewhere
uint8 a
void32
@sealed
''',
    'cov/PadTailHolder.1.0.dsdl': '''uint8 x
void12
void4
cov.PadTail.1.0[<=2] tail
@sealed
''',
    'cov/EmptyTail.1.0.dsdl': '''# the last thing serialized has a zero-length representation (a nested empty object, an array of them)
uint8[<=3] a
cov.Empty.1.0 e
cov.Empty.1.0[2] ee
@sealed
''',
    'cov/NarrowArr.1.0.dsdl': '''# fixed and variable arrays of narrow elements, each starting byte aligned
uint4[3] a
void4
uint2[5] b
void6
uint6[5] c
void2
int4[3] d
void4
uint1[9] e
void7
uint7[9] f
void1
int3[9] g
void5
truncated uint5[3] h
void1
uint4[<=3] va
void4
uint2[<=5] vb
void6
int6[<=5] vc
void2
uint12[3] w12
void4
int20[3] w20
void4
float16[3] f16
uint3[2] u32
void2
bool[3] b3
void5
@sealed
''',
    'cov/LongArr.1.0.dsdl': 'uint8[<=256] a\nuint8[<=70000] b\nbool[<=1000] c\n@sealed\n',
    # long arrays of whole-byte elements that start off a byte boundary, right after bits that are usually non-zero
    'cov/LongUnaligned.1.0.dsdl': '''uint3 head
uint8[80] payload
bool urgent
uint8[<=200] data
uint16[40] w
float64[<=9] d
bool more
bool[<=600] bits
int32[<=20] tail
@sealed
''',
    # heap memory owned two levels below a union alternative (no alternative has a variable-length array of its own)
    'cov/Blob.1.0.dsdl': 'uint8[<=64] data\n@sealed\n',
    'cov/Record.1.0.dsdl': 'uint16 id\ncov.Blob.1.0 payload\n@sealed\n',
    'cov/URec.1.0.dsdl': '@union\nuint8 a\ncov.Record.1.0 rec\ncov.Record.1.0[2] pair\nfloat32 f\n@sealed\n',
    'cov/URecHolder.1.0.dsdl': 'cov.URec.1.0 u\ncov.URec.1.0[<=2] us\nuint8 t\n@sealed\n',
    # a union all of whose options have the same length (a sealed type of fixed size), nested as a field and in a fixed array
    'cov/UFixedSize.1.0.dsdl': '@union\nuint16 a\nint16 b\nfloat16 c\n@sealed\n',
    'cov/UFixedHolder.1.0.dsdl': 'uint8 pre\ncov.UFixedSize.1.0 u\ncov.UFixedSize.1.0[2] us\nuint8 post\n@sealed\n',
    'cov/UFixedOuter.1.0.dsdl': 'cov.UFixedHolder.1.0 h\ncov.UFixedHolder.1.0[<=2] hs\n@sealed\n',
    'cov/Inner.1.0.dsdl': 'uint5 a\nint11 b\nbool[<=3] c\n@sealed\n',
    'cov/Outer.1.0.dsdl': '''Inner.1.0 one
void2
Inner.1.0[2] two
Inner.1.0[<=2] many
uint8 tail
Empty.1.0 e
Empty.1.0[<=3] es
@sealed
''',
    'cov/DInner.1.0.dsdl': 'uint8 a\nint16[<=2] b\n@extent 12 * 8\n',
    'cov/TightD.1.0.dsdl': '''# delimited, extent equal to the largest serialized size, ends with non byte aligned multi-bit fields
uint8[<=2] data
uint3 a
uint5 b
@extent 32
''',
    'cov/TightMid.1.0.dsdl': '''uint8[<=1] p
cov.TightD.1.0 d
@extent 80
''',
    'cov/TightTop.1.0.dsdl': '''uint8 x
cov.TightMid.1.0 m
@sealed
''',
    'cov/TightLast.1.0.dsdl': '''uint8[<=3] v
cov.TightD.1.0 last
@sealed
''',
    'cov/UWrapsD.1.0.dsdl': '''# a sealed union hides a delimited option from a walk that only looks into structures
@union
uint8 a
cov.DInner.1.0 d
cov.TightD.1.0[<=2] ds
@sealed
''',
    'cov/HoldsUWrapsD.1.0.dsdl': '''cov.UWrapsD.1.0 u
uint8 t
cov.UWrapsD.1.0[<=2] us
@sealed
''',
    'cov/DOuter.1.0.dsdl': '''uint3 pre
DInner.1.0 one
DInner.1.0[<=2] many
DInner.1.0[2] two
Inner.1.0 s
uint8 tail
@extent 128 * 8
''',
    'cov/DDeep.1.0.dsdl': 'DOuter.1.0[<=2] o\nuint16 x\n@extent 400 * 8\n',
    'cov/U.1.0.dsdl': '''@union
uint8 a
Inner.1.0 b
uint16[<=3] c
float32 d
Empty.1.0 e
bool[<=5] f
DInner.1.0 g
int64 h
@sealed
''',
    'cov/UFix.1.0.dsdl': '@union\nDInner.1.0[2] a\nuint8 b\nInner.1.0[3] c\nDInner.1.0[<=2] d\n@sealed\n',
    'cov/DU.1.0.dsdl': '@union\nuint8 a\nuint8[<=4] b\n@extent 16 * 8\n',
    'cov/UHolder.1.0.dsdl': 'U.1.0 u\nU.1.0[<=2] us\nDU.1.0 du\nuint4 t\nU.1.0[2] fu\n@sealed\n',
    'cov/Svc.1.0.dsdl': 'uint8 a\nInner.1.0 i\n@sealed\n---\nuint16[<=4] r\nU.1.0 u\n@extent 64 * 8\n',
    'cov/USvc.1.0.dsdl': '@union\nuint8 a\nuint16 b\n@sealed\n---\n@union\nuint8 x\nInner.1.0 y\n@sealed\n',
    'cov/sub/Leaf.1.0.dsdl': 'cov.Inner.1.0 i\nfloat16 f\n@sealed\n',
    'cov/sub/deep/Leaf2.0.1.dsdl': 'cov.sub.Leaf.1.0[<=2] l\n@extent 64 * 8\n',
    'cov/500.Fixed.1.0.dsdl': 'uint8 v\n@sealed\n',
    'cov/Ver.1.0.dsdl': 'uint8 v\n@extent 8 * 8\n',
    'cov/Ver.1.1.dsdl': 'uint8 v\nuint8 w\n@extent 8 * 8\n',
    'cov/Ver.2.0.dsdl': 'uint16 v\n@sealed\n',
    'other/Ref.1.0.dsdl': 'cov.Inner.1.0 a\ncov.U.1.0 b\ncov.sub.deep.Leaf2.0.1 c\n@sealed\n',
}


def write_corpus(root_dir, which=None):
    roots = []
    for rel, text in CORPUS.items():
        root = rel.split('/')[0]
        if which and root not in which:
            continue
        p = os.path.join(root_dir, rel)
        os.makedirs(os.path.dirname(p), exist_ok=True)
        with open(p, 'w', encoding='utf-8') as f:
            f.write(text)
        if root not in roots:
            roots.append(root)
    return roots
