#!/usr/bin/env python3
"""Runs the repository's pinned suite (guard off) and compares the passing set with /root/.vp/BASELINE.json."""
import json, os, subprocess, sys, tempfile, xml.etree.ElementTree as ET
base = json.load(open('/root/.vp/BASELINE.json'))
out = tempfile.mktemp(suffix='.xml')
env = dict(os.environ); env.pop('NUNAVUT_VERIF', None)
subprocess.run(['/venv/bin/python', '-m', 'pytest', '-q', '-p', 'no:cacheprovider', '--timeout=900',
                '--continue-on-collection-errors', '--junitxml=' + out], cwd='/repo', env=env,
               stdout=subprocess.DEVNULL, stderr=subprocess.DEVNULL)
passed = set()
for tc in ET.parse(out).getroot().iter('testcase'):
    if not any(c.tag in ('failure', 'error', 'skipped') for c in tc):
        passed.add('%s::%s' % (tc.get('classname'), tc.get('name')))
os.unlink(out)
want = set(base['stable_pass'])
missing = sorted(want - passed)
print('baseline %d, passed now %d, baseline tests no longer passing: %d' % (len(want), len(passed), len(missing)))
for m in missing: print('  MISSING', m)
sys.exit(1 if missing else 0)
