#!/usr/bin/env python3
"""tools/r4_collect.py <ID> [first index, default 10] [--round=4] [--src=/tmp/r4/<ID>/_seed]

Independent confirmation of a sub-agent's deliveries before they are kept as seeded/<ID>-<n>/:
  clean scratch worktree of /repo's HEAD  -> demo exits 0
  + git apply patchK.diff                 -> demo exits non-zero, the pinned suite still passes (415 baseline tests)
Only confirmed changes are copied (patch.diff, demo.py, notes.md, meta.json with what was run).  The scratch worktree is removed."""
import json, os, re, shutil, subprocess, sys, tempfile
HERE = os.path.dirname(os.path.dirname(os.path.abspath(__file__)))
args = [a for a in sys.argv[1:] if not a.startswith('--')]
opts = dict((a[2:].split('=', 1) + ['1'])[:2] for a in sys.argv[1:] if a.startswith('--'))
pid = args[0]
first = int(args[1]) if len(args) > 1 else 10
src = opts.get('src', '/tmp/r4/%s/_seed' % pid)
rnd = int(opts.get('round', '4'))
SUITE = os.path.join(HERE, 'tools', 'agent_prompts', 'suite.py')


def run(cmd, **kw):
    try:
        return subprocess.run(cmd, capture_output=True, text=True, timeout=900, **kw)
    except subprocess.TimeoutExpired:
        class R: returncode, stdout, stderr = -9, '', 'timeout'
        return R()


n = first
for k in (1, 2, 3):
    patch = os.path.join(src, 'patch%d.diff' % k)
    demo = os.path.join(src, 'demo%d.py' % k)
    notes = os.path.join(src, 'notes%d.md' % k)
    if not (os.path.exists(patch) and os.path.exists(demo)):
        continue
    wt = tempfile.mkdtemp(prefix='nvr4v_%s_%d_' % (pid, k))
    os.rmdir(wt)
    subprocess.run(['git', '-C', '/repo', 'worktree', 'add', '--detach', '-q', wt, 'HEAD'], check=True, capture_output=True)
    try:
        env = dict(os.environ, PYTHONPATH=os.path.join(wt, 'src'), PYTHONDONTWRITEBYTECODE='1')
        touched = sorted(set(re.findall(r"^\+\+\+ b/(\S+)", open(patch).read(), re.M)))
        if not touched or any(not t.startswith('src/nunavut/') for t in touched):
            print('%s K=%d REJECTED: touches %s' % (pid, k, touched)); continue
        r0 = run(['/venv/bin/python', demo], env=env, cwd=wt)
        a = run(['git', '-C', wt, 'apply', patch])
        if a.returncode:
            print('%s K=%d REJECTED: patch does not apply: %s' % (pid, k, a.stderr[:200])); continue
        r1 = run(['/venv/bin/python', demo], env=env, cwd=wt)
        s = run(['/venv/bin/python', SUITE, wt])
        ok = r0.returncode == 0 and r1.returncode not in (0, -9) and s.returncode == 0
        print('%s K=%d clean demo rc=%d, patched demo rc=%d, suite rc=%d (%s) -> %s' % (pid, k, r0.returncode, r1.returncode, s.returncode,
              s.stdout.strip().splitlines()[0] if s.stdout.strip() else s.stderr[-100:], 'CONFIRMED' if ok else 'REJECTED'), flush=True)
        if not ok:
            print('   clean: %s\n   patched: %s' % ((r0.stdout + r0.stderr)[-300:], (r1.stdout + r1.stderr)[-300:]))
            continue
        d = os.path.join(HERE, 'seeded', '%s-%d' % (pid, n))
        os.makedirs(d, exist_ok=True)
        shutil.copy(patch, os.path.join(d, 'patch.diff'))
        text = open(demo, encoding='utf-8').read().replace('/tmp/r4_tools/deps', '/verif/.deps')
        open(os.path.join(d, 'demo.py'), 'w', encoding='utf-8').write(text)
        if os.path.exists(notes):
            shutil.copy(notes, os.path.join(d, 'notes.md'))
        json.dump({"round": rnd, "confirmed": {"clean_demo_exit": r0.returncode, "patched_demo_exit": r1.returncode,
                                               "suite_with_patch": s.stdout.strip().splitlines()[0] if s.stdout.strip() else "",
                                               "patched_demo_says": (r1.stdout + r1.stderr).strip()[-400:]}},
                  open(os.path.join(d, 'meta.json'), 'w'), indent=1)
        n += 1
    finally:
        subprocess.run(['git', '-C', '/repo', 'worktree', 'remove', '--force', wt], capture_output=True)
        shutil.rmtree(wt, ignore_errors=True)
subprocess.run(['git', '-C', '/repo', 'worktree', 'prune'])
