/* Armed library assertions report and abort (the driver run is then a crash the check reports). */
#include <stdio.h>
#include <stdlib.h>
#define NUNAVUT_ASSERT(x) do { if (!(x)) { fprintf(stderr, "NUNAVUT_ASSERT_FAILED %s:%d %s\n", __FILE__, __LINE__, #x); fflush(stderr); abort(); } } while (0)
