#!/bin/sh
# MANIFEST.setup_cmd: install third-party helpers from the offline wheelhouse into /verif/.deps (git-ignored).
# Every check also calls this lazily when .deps is absent, so a fresh restore works either way.
set -e
cd "$(dirname "$0")"
if [ ! -f .deps/.ok ]; then
    rm -rf .deps
    PIP_NO_INDEX=1 /venv/bin/pip install --quiet --no-index --find-links /opt/veriftools/wheels \
        --target .deps numpy icontract deal >/dev/null 2>.deps.log || { cat .deps.log; exit 1; }
    rm -f .deps.log
    touch .deps/.ok
fi
echo "setup ok"
