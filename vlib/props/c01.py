"""C01 - generated serializers emit exactly the DSDL-specified wire representation.

The real generator's C, C++ and Python output is compiled (clang ASan+UBSan for C/C++, gcc -O2 as a second compiler) or
imported, and every serialize() execution is observed: the produced bytes are compared with an executable reference model of
the specification (cross-checked per case against PyDSDL's independent codec), values without a representation must be refused.
"""
import random
import shutil

from vlib import build, codecwork as W, common, refmodel as M

LEVEL = "exploration"
MANIFEST = {
    "category": "exploration",
    "technique": "runtime monitoring of generated codecs under ASan/UBSan with a reference-model oracle (own wire-format model cross-checked against pydsdl.serialize) over generated types, boundary values and dirty buffers",
    "text": "For a fixed template-branch coverage corpus plus random namespace sets, code is generated with the real CLI for C (any / "
            "little / big endianness, asserts on/off, clang-ASan and gcc), C++ (c++14, c++17, c++20, c++17-pmr) and Python; each "
            "type is serialized from boundary and random values taken from the storage range of the generated field types (so "
            "saturation/truncation paths run), from NaN/inf/subnormals, arrays at 0/1/capacity, every union option, plus values "
            "without representation (over-capacity arrays, invalid tags), into exact-size heap buffers prefilled with 0x00/0xFF/"
            "0xA5/PRNG bytes. Bytes must equal the model's; the generated code's own NUNAVUT_ASSERTs are armed.",
    "note": "Float values that are not representable in the field type may encode to either neighbouring value; NaN payloads are not "
            "judged (the generator only uses the canonical NaN). Python objects cannot hold out-of-range values (C18 covers that). "
            "Cases where the own model and PyDSDL's codec disagree are not judged and make the run inconclusive.",
}
MANIFEST["text"] += ' The coverage corpus also holds types whose offsets share smallest and largest element but differ in alignment, arrays of 64 bytes and more that start off a byte boundary after non-zero bits, and the C option enable_override_variable_array_capacity is one of the code bases.'
MANIFEST["text"] += ' Hostile values carry invalid tags in nested unions too; a union with more than 256 options (16-bit tag) runs as a small set of its own for C, C++14 and Python.'


def judge_ser(ctx, base, t, label, v, vec, res, witness):
    ctx.count("evaluations")
    ctx.count("ser_executions[%s]" % base.name)
    try:
        exp = M.encode(t, v)
        invalid = None
    except M.Invalid as e:
        exp, invalid = None, e.kind
    w = dict(witness, base=base.name, type=str(t), value_kind=label, value=str(v)[:600], bufsize=vec["bufsize"], prefill=vec.get("pre"))
    if res["st"] == "crash":
        ctx.refute(None, "serialization crashed: %s %s" % (res["kind"], res["frames"][:2]), dict(w, report=res["text"][-1200:]))
        return
    if res["st"] in ("missing", "baddump"):
        ctx.count("unobserved")
        return
    if res["st"] == "exc":
        if res.get("env_numpy2"):
            ctx.count("env_numpy2_excluded")
            return
        if invalid:
            ctx.count("invalid_refused")
            return
        ctx.refute(None, "Python serialization raised %s: %s" % (res.get("exc"), (res.get("msg") or "")[:150]), dict(w, tb=res.get("tb")))
        return
    if invalid:
        if res["st"] == "ok":
            ctx.refute(None, "%s: bytes produced for a value without representation (%s)" % (base.name, invalid), dict(w, got=res["bytes"].hex()[:200]))
        else:
            ctx.count("invalid_refused")
        return
    if res["st"] == "err":
        ctx.refute(None, "%s: representable value refused with rc=%s" % (base.name, res["rc"]), w)
        return
    x = M.crosscheck_encode(t, v)
    if x[0] == "ok" and x[1] != exp:
        ctx.count("model_disagreement")
        return
    if x[0] == "ok":
        ctx.count("crosschecked_against_pydsdl")
    got = res["bytes"]
    if got == exp:
        ctx.count("ser_exact")
        ctx.distinct((W.features(t), label, vec.get("pre")))
        return
    # float rounding leniency: only for values with floats that are not exactly representable
    if len(got) == len(exp) and M.has_inexact_float(t, v):
        try:
            a, b = M.decode(t, got)[0], M.decode(t, exp)[0]
            if M.same(t, a, b, lenient_float=True) and M.encode(t, a) == got:
                ctx.count("ser_adjacent_float_accepted")
                return
        except M.Invalid:
            pass
    diff = next((i for i, (p, q) in enumerate(zip(got, exp)) if p != q), min(len(got), len(exp)))
    ctx.refute(None, "%s: serialized bytes of %s differ from the specification at byte %d (lengths %d/%d)" % (base.name, t, diff, len(got), len(exp)),
               dict(w, got=got.hex()[:400], expected=exp.hex()[:400]))


def run_set(ctx, item, nvals):
    idx, dsdl_dir, roots, parsed = item
    R = random.Random("c01/%s/%s" % (ctx.seed, idx))
    wd = ctx.sub("work_%s" % idx)
    bases = W.build_bases(wd, dsdl_dir, roots, parsed, W.base_specs(ctx.quick, idx))
    witness = dict(set=idx, seed=ctx.seed)
    for b in bases:
        if b.error:
            ctx.count("bases_failed[%s]" % b.name)
            ctx.extra.setdefault("base_failures", []).append(dict(set=idx, base=b.name, stage=b.error[0], detail=b.error[1][-400:]))
            continue
        ctx.count("bases_built")
        storage = b.lang != "py"
        vectors, meta = [], []
        for ti, t in enumerate(b.msgs):
            vals = W.ser_values(R, t, nvals, storage=storage)
            if storage:
                vals += [h for h in W.hostile_values(R, t) if not (b.lang == "cpp" and h[0] == "bad_tag")]
            for k, (label, v) in enumerate(vals):
                bound = W.bufbound(t)
                bufsize = bound + (R.choice([0, 0, 1, 7]) if k % 3 else 0)
                vec = dict(op="ser", ti=ti, value=v, bufsize=bufsize, pre=k % 4, objpre=R.choice([0, 1, 2, 3]))
                vectors.append(vec)
                meta.append((t, label, v))
        results, exit_reports, inc = b.run(vectors)
        if inc:
            ctx.inconclusive_because("%s: %s" % (b.name, inc))
        for (t, label, v), vec, res in zip(meta, vectors, results):
            judge_ser(ctx, b, t, label, v, vec, res, witness)
    W.cleanup_bases(bases)
    shutil.rmtree(wd, ignore_errors=True)
    return len(bases)


def run(ctx):
    ctx.rule = ("case = (type, value, code base = language x options, buffer prefill, buffer size); distinct = distinct (type feature vector, value kind, "
                "prefill) triples whose bytes matched the specification; non-trivial = every judged execution compares real output bytes")
    ok, why = build.sanitizer_canary(ctx.sub("canary"))
    if not ok:
        ctx.inconclusive_because("sanitizer canary: " + why)
        return
    sets = W.make_sets(ctx, ctx.pick(2, 24), "c01")
    for item in sets:
        run_set(ctx, item, ctx.pick(14, 80))
    run_set(ctx, W.big_union_set(ctx), ctx.pick(14, 80))
    ctx.sample({"type": "cov.Odd.1.0", "value_kind": "rand (storage range)", "bases": "c_any, c_little/big, cpp14, cpp17/20/pmr, py", "oracle": "refmodel.encode + pydsdl.serialize cross-check"})
    ctx.require("ser_exact", 1000)
    ctx.require("invalid_refused", 20)
    ctx.require("crosschecked_against_pydsdl", 500)
    for lang in ("c_any", "cpp14", "py"):
        ctx.require("ser_executions[%s]" % lang, 100)
    if ctx.counters["model_disagreement"]:
        ctx.inconclusive_because("%d cases where the own model and PyDSDL's codec disagree" % ctx.counters["model_disagreement"])
