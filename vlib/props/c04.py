"""C04 - generated C/C++ codecs are memory-safe, total, leak-free and free of prior-state influence.

Oracles: the sanitizers themselves (ASan + UBSan + LeakSanitizer on clang builds; MemorySanitizer and gcc-ASan in the thorough
tier) with report blocks attributed to the announced vector; the set of documented return codes read from the generated support
header; an allocation-balance counter after every vector (replaced global operator new/delete); equality of (rc, consumed,
decoded value) across destination prior states (zeroed / 0xFF / PRNG garbage / earlier decode of another message).
Workload: hostile vectors - every buffer size 0..bound+k as exact-size heap allocations, objects with counts up to SIZE_MAX and
tags up to 255, over-long C++ containers, decode histories into one object, copy/move/assign/destroy of C++ objects in every
union state, and the C per-field capacity override.
"""
import os
import random
import re
import shutil

import pydsdl

from vlib import build, codec, codecwork as W, common, refmodel as M

LEVEL = "exploration"
MANIFEST = {
    "category": "exploration",
    "technique": "compiler sanitizers (ASan, UBSan, LSan; MSan and gcc-ASan in the thorough tier) on harnesses around the real generated C/C++ code + return-code whitelist + allocation-balance counter + prior-state differential",
    "text": "Generated C11 and C++14/17/20/17-pmr code for the coverage corpus and random sets is driven with hostile vectors: "
            "serialization into exact-size heap buffers of every size 0..max+k (size 0 as a poisoned 1-byte allocation or NULL), "
            "from objects whose array counts reach SIZE_MAX and whose union tags reach 255 (C) or whose containers exceed "
            "capacity (C++); deserialization of valid/mutated/random data of every length into destinations that are zeroed, "
            "0xFF-filled, PRNG-filled or left by an earlier (successful or failed) decode, results compared across those states; "
            "copy/move/assign/destroy of every C++ type in loaded states; C compiled with reduced per-field array capacities. "
            "Every sanitizer report, unknown return code, allocation imbalance or prior-state difference refutes the property.",
    "note": "A clean sanitizer run is not memory safety: red zones miss intra-object overflows except through UBSan 'bounds' on fixed arrays. "
            "MSan only for C (libstdc++ is not instrumented). Pointers formed but never dereferenced are not judged.",
}
MANIFEST["text"] += ' The corpus includes unions whose alternatives own heap memory two levels down (no variable-length array of their own).'


def documented_rcs(base):
    """Return codes documented in the generated C support header."""
    p = os.path.join(base.dir, "gen", "nunavut", "support", "serialization.h")
    out = {0}
    try:
        for m in re.finditer(r"#define\s+NUNAVUT_ERROR_\w+\s+(\d+)", open(p).read()):
            out.add(-int(m.group(1)))
    except OSError:
        pass
    return out


def cpp_error_codes(base):
    p = os.path.join(base.dir, "gen", "nunavut", "support", "serialization.hpp")
    out = {0}
    try:
        txt = open(p).read()
        m = re.search(r"enum class Error\s*\{(.*?)\}", txt, re.S)
        for n in re.findall(r"=\s*(\d+)", m.group(1)):
            out.add(-int(n))
    except Exception:
        pass
    return out


def classify(base, res, t=None):
    return None


def hostile_raw_c(r, t):
    """Raw value streams with counts up to SIZE_MAX / tags up to 255 (C only): the stream carries the count and min(count, capacity) elements."""
    out = []
    it = M.inner(t)
    base = M.gen_value(r, t, in_range=True, maxlen=3)

    def with_count(v, fname, dt, count):
        # write the value normally, but with the hostile count: vs_write clips elements to capacity and writes len(list)
        e = M.gen_value(r, dt.element_type, in_range=True, maxlen=2)

        class Huge(list):
            def __len__(self):
                return count
        lst = Huge([e] * dt.capacity)
        v2 = dict(v)
        v2[fname] = lst
        return v2
    fields = it.fields if isinstance(it, pydsdl.UnionType) else it.fields_except_padding
    for f in fields:
        dt = f.data_type
        if isinstance(dt, pydsdl.VariableLengthArrayType) and dt.capacity < 3000:
            for count in (dt.capacity + 1, 2 ** 32, 2 ** 64 - 1):
                v = with_count({} if isinstance(it, pydsdl.UnionType) else base, f.name, dt, count)
                try:
                    out.append(("count=%d" % count, bytes(M.vs_write(t, v, bytearray(), clip=True))))
                except Exception:
                    pass
    if isinstance(it, pydsdl.UnionType):
        for tag in (len(it.fields), 200, 255):
            out.append(("tag=%d" % tag, bytes(M.vs_write(t, {"__raw_tag__": tag}, bytearray()))))
    return out


def run_base(ctx, b, R, witness, nvals, rcs):
    vectors, meta = [], []
    for ti, t in enumerate(b.msgs):
        bound = W.bufbound(t)
        # --- serialization into every buffer size (stratified when large)
        vmax = M.max_value(t)
        sizes = list(range(0, min(bound, 40) + 1)) + [bound - 1, bound, bound + 1, bound + 9] + [R.randint(0, bound) for _ in range(6)]
        for k, s in enumerate(sorted(set(x for x in sizes if x >= 0))):
            v = vmax if k % 2 == 0 else M.gen_value(R, t, in_range=False, maxlen=R.choice([1, 5, 30]))
            vectors.append(dict(op="ser", ti=ti, value=v, bufsize=s, pre=k % 4, objpre=k % 4))
            meta.append(("ser-size", t, None))
        # --- hostile objects
        if b.lang == "c":
            for label, raw in hostile_raw_c(R, t):
                vectors.append(dict(op="ser", ti=ti, value=None, raw=raw, bufsize=bound + 8, pre=1, objpre=1))
                meta.append(("ser-hostile:" + label, t, None))
        else:
            for label, v in W.hostile_values(R, t):
                if label == "bad_tag":
                    continue
                vectors.append(dict(op="ser", ti=ti, value=v, bufsize=bound + 8, pre=1))
                meta.append(("ser-hostile:" + label, t, None))
        # --- deserialization: every input under several prior states
        inputs = W.des_inputs(R, t, nvals)
        other = [d for _, d in W.des_inputs(R, t, 2)][:6] or [b""]
        for k, (label, data) in enumerate(inputs):
            group = len(meta)
            priors = [0, 1, 2, 3] if b.lang == "c" else [0, 3]
            for pr in priors:
                vectors.append(dict(op="des", ti=ti, data=data, prior=pr, prior_data=other[k % len(other)], null_when_empty=(k % 2 == 0)))
                meta.append(("des", t, (ti, k)))
        # --- C++ value semantics
        if b.lang == "cpp":
            for k in range(max(3, nvals // 2)):
                vectors.append(dict(op="copy", ti=ti, value=M.gen_value(R, t, in_range=True, maxlen=4), other=M.gen_value(R, t, in_range=True, maxlen=4)))
                meta.append(("copy", t, None))
    results, exit_reports, inc = b.run(vectors)
    if inc:
        ctx.inconclusive_because("%s: %s" % (b.name, inc))
    for rep in exit_reports:
        ctx.refute(None, "%s: sanitizer report at process exit: %s %s" % (b.name, rep[1], rep[2][:3]), dict(witness, base=b.name, report=rep[3][-1500:]))
    groups = {}
    for (kind, t, g), vec, res in zip(meta, vectors, results):
        ctx.count("evaluations")
        ctx.count("sanitized_executions")
        ctx.count("executions[%s]" % b.name)
        w = dict(witness, base=b.name, type=str(t), kind=kind, bufsize=vec.get("bufsize"), data=bytes(vec.get("data", b"")).hex()[:300], prior=vec.get("prior"))
        if res["st"] == "crash":
            ctx.count("sanitizer_reports")
            ctx.refute(classify(b, res, t), "%s: %s in %s (%s of %s)" % (b.name, res["kind"], res["frames"][:3], kind, t), dict(w, report=res["text"][-1800:]))
            continue
        if res["st"] == "missing":
            ctx.count("unobserved")
            continue
        if res["st"] == "baddump":
            ctx.refute(None, "%s: decoded object of %s is not a valid value (%s)" % (b.name, t, res["why"]), w)
            continue
        rc = res["rc"]
        if rc not in rcs:
            ctx.refute(None, "%s: undocumented return code %d from %s of %s" % (b.name, rc, kind, t), w)
            continue
        if res.get("live"):
            ctx.refute(None, "%s: allocation imbalance %+d after %s of %s (leak or double release)" % (b.name, res["live"], kind, t), w)
            continue
        ctx.count("clean_executions")
        if kind == "ser-size":
            bound = W.bufbound(t)
            if res["st"] == "ok" and res["size"] > vec["bufsize"]:
                ctx.refute(None, "%s: serialize reported %d bytes written into a buffer of %d" % (b.name, res["size"], vec["bufsize"]), w)
            elif res["st"] == "ok":
                ctx.count("ser_fitting_ok")
            else:
                ctx.count("ser_refused")
        elif kind.startswith("ser-hostile"):
            if res["st"] == "ok":
                ctx.refute(None, "%s: hostile object (%s) of %s serialized successfully" % (b.name, kind, t), w)
            else:
                ctx.count("hostile_objects_refused")
        elif kind == "des":
            groups.setdefault(g, []).append((vec["prior"], res))
        elif kind == "copy":
            if res["st"] == "ok" and not M.same(t, vec["value"], res["value"]):
                ctx.refute(None, "%s: value of %s changed by copy/move/assign chain" % (b.name, t), dict(w, before=str(vec["value"])[:300], after=str(res["value"])[:300]))
            else:
                ctx.count("copy_chains_ok")
        ctx.distinct((b.name, W.features(t), kind.split(":")[0]))
    # prior-state differential
    for g, items in groups.items():
        ref = items[0][1]
        t = b.msgs[g[0]]
        for prior, res in items[1:]:
            ctx.count("prior_state_comparisons")
            same = (ref["st"] == res["st"] and ref.get("rc") == res.get("rc") and ref.get("size") == res.get("size") and
                    (ref["st"] != "ok" or M.same(t, ref["value"], res["value"])))
            if not same:
                ctx.refute(None, "%s: deserialization of %s depends on the destination's prior state (prior mode 0 vs %d)" % (b.name, t, prior),
                           dict(witness, base=b.name, type=str(t), a=str(ref)[:300], b=str(res)[:300]))
            else:
                ctx.count("prior_state_independent")


def capacity_override(ctx, item, R):
    """C generated with enable_override_variable_array_capacity, compiled with reduced capacities."""
    idx, dsdl_dir, roots, parsed = item
    wd = ctx.sub("work_cap_%s" % idx)
    defines = []
    lctx = None
    from vlib import genrun
    from nunavut.lang.c import filter_full_reference_name
    lang = genrun.lang_context("c").get_target_language()
    reduced = {}
    for t in codec.messages_of(parsed, roots):
        for f in M.inner(t).fields_except_padding if not isinstance(M.inner(t), pydsdl.UnionType) else M.inner(t).fields:
            dt = f.data_type
            # bit-packed bool arrays too: whether or not their storage follows the macro, declaration and length checks must agree
            if isinstance(dt, pydsdl.VariableLengthArrayType) and dt.capacity >= 2 and R.random() < 0.6:
                k = R.choice([1, max(1, dt.capacity // 2), dt.capacity - 1])
                defines.append("%s_%s_ARRAY_CAPACITY_=%dU" % (filter_full_reference_name(lang, t), lang.filter_id(f), k))
                reduced[(codec.key(t), f.name)] = k
    b = codec.CBase(wd, dsdl_dir, roots, parsed, flags=["--enable-override-variable-array-capacity"], kind="asan", defines=defines, name="c_capacity_override")
    if b.error:
        ctx.count("bases_failed[c_capacity_override]")
        ctx.extra.setdefault("base_failures", []).append(dict(set=idx, base=b.name, stage=b.error[0], detail=b.error[1][-600:]))
        return
    vectors, meta = [], []
    for ti, t in enumerate(b.msgs):
        for label, data in W.des_inputs(R, t, 6):
            vectors.append(dict(op="des", ti=ti, data=data, prior=1))
            meta.append(t)
    results, exit_reports, inc = b.run(vectors)
    for t, vec, res in zip(meta, vectors, results):
        ctx.count("evaluations")
        ctx.count("capacity_override_executions")
        if res["st"] == "crash":
            touched = [f for (k, f) in reduced if k == codec.key(t)] or [f for (k, f) in reduced]
            ctx.count("refuted[c-capacity-override-count-checked-against-dsdl-capacity]")
            ctx.refute("c-capacity-override-count-checked-against-dsdl-capacity" if ("index" in res["kind"] and "out of bounds" in res["kind"]) or "buffer-overflow" in res["kind"] else None,
                       "c_capacity_override: %s in %s while decoding %s with reduced array capacities" % (res["kind"], res["frames"][:2], t),
                       dict(set=idx, seed=ctx.seed, type=str(t), defines=defines[:8], data=bytes(vec["data"]).hex()[:200], report=res["text"][-1200:]))
        else:
            ctx.count("capacity_override_clean")
    shutil.rmtree(wd, ignore_errors=True)


def run_set(ctx, item, nvals):
    idx, dsdl_dir, roots, parsed = item
    R = random.Random("c04/%s/%s" % (ctx.seed, idx))
    wd = ctx.sub("work_%s" % idx)
    specs = W.base_specs(ctx.quick, idx, want=("c", "cpp"))
    if not ctx.quick:
        specs += [dict(lang="c", name="c_msan", flags=[], kind="msan"), dict(lang="c", name="c_gccasan", flags=[], kind="gccasan"),
                  dict(lang="cpp", std="c++14", name="cpp14_gccasan", kind="gccasan")]
    bases = W.build_bases(wd, dsdl_dir, roots, parsed, specs)
    witness = dict(set=idx, seed=ctx.seed)
    for b in bases:
        if b.error:
            ctx.count("bases_failed[%s]" % b.name)
            ctx.extra.setdefault("base_failures", []).append(dict(set=idx, base=b.name, stage=b.error[0], detail=b.error[1][-400:]))
            continue
        ctx.count("bases_built")
        rcs = documented_rcs(b) if b.lang == "c" else cpp_error_codes(b)
        ctx.extra["documented_return_codes_%s" % b.lang] = sorted(rcs)
        run_base(ctx, b, R, witness, nvals, rcs)
    shutil.rmtree(wd, ignore_errors=True)
    capacity_override(ctx, item, R)


def run(ctx):
    ctx.rule = ("case = hostile vector (operation, type, buffer size / contents, object state, destination prior state) on a sanitized code base; "
                "distinct = distinct (code base, type feature vector, operation kind) triples executed without any report")
    ok, why = build.sanitizer_canary(ctx.sub("canary"))
    if not ok:
        ctx.inconclusive_because("sanitizer canary: " + why)
        return
    ctx.count("sanitizer_canary_ok")
    sets = W.make_sets(ctx, ctx.pick(2, 24), "c04")
    for item in sets:
        run_set(ctx, item, ctx.pick(4, 30))
    ctx.extra["sanitizer_flags"] = build.KINDS["asan"]["flags"]
    ctx.sample({"operation": "deserialize", "type": "cov.U.1.0", "buffer": "exact-size heap allocation of 3 bytes", "prior states": "zero / 0xFF / PRNG / earlier decode",
                "observed": "(rc, consumed, dump) + sanitizer log + allocation balance"})
    ctx.require("sanitized_executions", 5000)
    ctx.require("prior_state_independent", 1000)
    ctx.require("hostile_objects_refused", 30)
    ctx.require("ser_refused", 200)
    ctx.require("copy_chains_ok", 50)
    ctx.require("capacity_override_executions", 100)
    # a code base that could not be built (or lost most of its vectors) is a monitor that did not run, not a property that held
    ctx.require("executions[c_any]", 8000)
    ctx.require("executions[cpp14]", 5000)
