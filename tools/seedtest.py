#!/usr/bin/env python3
"""tools/seedtest.py <ID> [k ...] [--tier quick] [--checks C01,C02]: apply seeded/<ID>/patch<k>.diff to /repo, run the check(s), revert."""
import subprocess, sys, os, glob, json, time
HERE = os.path.dirname(os.path.dirname(os.path.abspath(__file__)))
args = [a for a in sys.argv[1:] if not a.startswith('--')]
opts = dict(a[2:].split('=') for a in sys.argv[1:] if a.startswith('--') and '=' in a)
pid = args[0]
ks = args[1:] or sorted(os.path.basename(p)[5:-5] for p in glob.glob(os.path.join(HERE, 'seeded', pid, 'patch*.diff')))
checks = opts.get('checks', pid).split(',')
tier = opts.get('tier', 'quick')
assert subprocess.run(['git', '-C', '/repo', 'status', '--porcelain', '--untracked-files=no'], capture_output=True, text=True).stdout.strip() == '', '/repo not clean'
for k in ks:
    patch = os.path.join(HERE, 'seeded', pid, 'patch%s.diff' % k)
    r = subprocess.run(['git', '-C', '/repo', 'apply', patch], capture_output=True, text=True)
    if r.returncode:
        print(pid, k, 'PATCH DOES NOT APPLY', r.stderr[:300]); continue
    try:
        for c in checks:
            t = time.time()
            r = subprocess.run([os.path.join(HERE, 'check'), c, '--tier', tier], capture_output=True, text=True, cwd=HERE,
                               env=dict(os.environ, VERIF_SEED=opts.get('seed', '0')))
            viol = [l for l in r.stdout.splitlines() if l.startswith('VIOLATION')]
            what = [l for l in r.stdout.splitlines() if l.startswith('  what:')]
            print('%s patch%s check=%s rc=%d violations=%d %.0fs %s' % (pid, k, c, r.returncode, len(viol), time.time() - t, (what[0][:160] if what else '')), flush=True)
            if r.returncode == 2:
                print('   ', [l for l in r.stdout.splitlines() if l.startswith('INCONCLUSIVE')][:2])
    finally:
        subprocess.run(['git', '-C', '/repo', 'checkout', '--', '.'], check=True)
subprocess.run(['rm', '-rf', os.path.join(HERE, 'replay')])
