#!/usr/bin/env python3
"""usage: /venv/bin/python /tmp/r4_tools/suite.py <worktree>
Runs the project's pinned test suite against <worktree> (its own src/ is what gets imported) and compares the set of passing
tests with the pinned baseline (415 passing; 63 tests always fail in this sandbox because the `coverage` executable is absent).
Doctest ids embed line numbers; they are compared by their order within the file, so shifting lines is harmless.
Exit 0 = all 415 baseline tests still pass."""
import json, os, re, subprocess, sys, tempfile, collections, xml.etree.ElementTree as ET
wt = os.path.abspath(sys.argv[1])
base = json.load(open('/root/.vp/BASELINE.json'))
out = tempfile.mktemp(suffix='.xml')
env = dict(os.environ, PYTHONPATH=os.path.join(wt, 'src'), PYTHONDONTWRITEBYTECODE='1')
subprocess.run(['/venv/bin/python', '-m', 'pytest', '-q', '-p', 'no:cacheprovider', '--timeout=900',
                '--continue-on-collection-errors', '--junitxml=' + out], cwd=wt, env=env,
               stdout=subprocess.DEVNULL, stderr=subprocess.DEVNULL)
passed = []
for tc in ET.parse(out).getroot().iter('testcase'):
    if not any(c.tag in ('failure', 'error', 'skipped') for c in tc):
        passed.append('%s::%s' % (tc.get('classname'), tc.get('name')))
os.unlink(out)
def norm(ids):
    cnt = collections.Counter(); res = collections.Counter()
    def key(i):
        m = re.search(r'line:(\d+),column:(\d+)', i)
        return (re.sub(r'line:\d+,column:\d+', 'L', i), int(m.group(1)) if m else 0)
    for i in sorted(ids, key=key):
        res[key(i)[0]] += 1
    return res
want, got = norm(base['stable_pass']), norm(passed)
missing = want - got
print('baseline %d, passing now %d, baseline tests no longer passing: %d' % (sum(want.values()), sum(got.values()), sum(missing.values())))
for m, n in missing.items(): print('  MISSING', m, 'x%d' % n)
sys.exit(1 if missing else 0)
