#!/bin/sh
# tools/q.sh <ID> [tier]: run one check and print only the verdict lines
cd "$(dirname "$0")/.." && ./check "$1" --tier "${2:-quick}" 2>&1 | grep -E "^C[0-9]+ (HELD|VIOLATED|INCONCLUSIVE)|^VIOLATION|^INCONCLUSIVE|^KNOWN-FINDING|^  what" | cut -c1-${3:-700} | tail -${4:-12}
