"""E4 - C++ harness generator (std::vector / std::array / bitset / built-in variant / std::variant / pmr aware).
Buffers are always handed to (const_)bitspan as (pointer, size).  Global operator new/delete are replaced by counting versions,
so that allocation balance can be checked after every vector (conservation monitor, all standards and allocator flavours)."""
import pydsdl

from vlib import refmodel as M
from vlib.harness_c import PRELUDE, HELPERS, ctype

COUNTING_NEW = r'''
#include <new>
static long g_live = 0;
void* operator new(std::size_t n) { void* p = std::malloc(n ? n : 1); if (!p) throw std::bad_alloc(); ++g_live; return p; }
void* operator new[](std::size_t n) { void* p = std::malloc(n ? n : 1); if (!p) throw std::bad_alloc(); ++g_live; return p; }
void operator delete(void* p) noexcept { if (p) { --g_live; std::free(p); } }
void operator delete[](void* p) noexcept { if (p) { --g_live; std::free(p); } }
void operator delete(void* p, std::size_t) noexcept { if (p) { --g_live; std::free(p); } }
void operator delete[](void* p, std::size_t) noexcept { if (p) { --g_live; std::free(p); } }
#if __cplusplus >= 201703L
void* operator new(std::size_t n, std::align_val_t a) { void* p = nullptr; if (posix_memalign(&p, static_cast<std::size_t>(a) < sizeof(void*) ? sizeof(void*) : static_cast<std::size_t>(a), n ? n : 1)) throw std::bad_alloc(); ++g_live; return p; }
void* operator new[](std::size_t n, std::align_val_t a) { return operator new(n, a); }
void operator delete(void* p, std::align_val_t) noexcept { if (p) { --g_live; std::free(p); } }
void operator delete[](void* p, std::align_val_t) noexcept { if (p) { --g_live; std::free(p); } }
void operator delete(void* p, std::size_t, std::align_val_t) noexcept { if (p) { --g_live; std::free(p); } }
void operator delete[](void* p, std::size_t, std::align_val_t) noexcept { if (p) { --g_live; std::free(p); } }
#endif
'''


def cpptype(t):
    c = ctype(t)
    return c if c in ("bool", "float", "double") else "std::" + c


class CppHarness:
    def __init__(self, lang, messages):
        from nunavut.lang.cpp import filter_full_reference_name
        self.lang = lang
        self._frn = filter_full_reference_name
        self.uid = 0
        self.messages = list(messages)
        self.order = self._toposort(messages)
        self.port_owner = {}

    @staticmethod
    def key(t):
        return "%s.%d.%d" % (t.full_name, t.version.major, t.version.minor)

    def tname(self, t):
        return "::" + self._frn(self.lang, t)

    def fn(self, t):
        return self._frn(self.lang, t).replace("::", "__")

    def fid(self, f):
        return self.lang.filter_id(f)

    def _toposort(self, types):
        seen, order = set(), []

        def visit(t):
            k = self.key(t)
            if k in seen:
                return
            seen.add(k)
            for f in M.inner(t).fields_except_padding:
                dt = f.data_type
                while isinstance(dt, pydsdl.ArrayType):
                    dt = dt.element_type
                if isinstance(dt, pydsdl.CompositeType):
                    visit(dt)
            order.append(t)
        for t in types:
            visit(t)
        return order

    def includes(self, toplevel_types):
        from nunavut.lang._common import IncludeGenerator
        return ['#include "%s"' % IncludeGenerator.make_path(t, self.lang, self.lang.extension).as_posix() for t in toplevel_types]

    def _load_scalar_expr(self, t):
        if isinstance(t, pydsdl.BooleanType):
            return "(rd64(s, n, p) != 0)"
        if isinstance(t, pydsdl.UnsignedIntegerType):
            return "static_cast<%s>(rd64(s, n, p))" % cpptype(t)
        if isinstance(t, pydsdl.SignedIntegerType):
            return "static_cast<%s>(static_cast<std::int64_t>(rd64(s, n, p)))" % cpptype(t)
        if isinstance(t, pydsdl.FloatType):
            return "%s(rd64(s, n, p))" % ("ldf64" if t.bit_length == 64 else "ldf32")
        raise TypeError(t)

    def _load_into(self, dt, ref, o, ind):
        """Loads a non-union-member field/element reference."""
        p = "    " * ind
        if isinstance(dt, pydsdl.ArrayType):
            self.uid += 1
            i = "i%d" % self.uid
            et = dt.element_type
            if isinstance(dt, pydsdl.VariableLengthArrayType):
                o.append(p + "{ const std::uint64_t cnt = rd64(s, n, p); (%s).clear();" % ref)
                o.append(p + "  for (std::uint64_t %s = 0; %s < cnt; ++%s) {" % (i, i, i))
                if isinstance(et, pydsdl.CompositeType):
                    o.append(p + "    (%s).emplace_back(); load_%s((%s).back(), s, n, p);" % (ref, self.fn(et), ref))
                else:
                    o.append(p + "    (%s).push_back(%s);" % (ref, self._load_scalar_expr(et)))
                o.append(p + "  } }")
            else:
                o.append(p + "for (std::size_t %s = 0; %s < %dU; ++%s) {" % (i, i, dt.capacity, i))
                if isinstance(et, pydsdl.CompositeType):
                    o.append(p + "    load_%s((%s)[%s], s, n, p);" % (self.fn(et), ref, i))
                else:
                    o.append(p + "    (%s)[%s] = %s;" % (ref, i, self._load_scalar_expr(et)))
                o.append(p + "}")
        elif isinstance(dt, pydsdl.CompositeType):
            o.append(p + "load_%s(%s, s, n, p);" % (self.fn(dt), ref))
        else:
            o.append(p + "%s = %s;" % (ref, self._load_scalar_expr(dt)))

    def _dump_from(self, dt, ref, o, ind):
        p = "    " * ind
        if isinstance(dt, pydsdl.ArrayType):
            self.uid += 1
            i = "i%d" % self.uid
            et = dt.element_type
            if isinstance(dt, pydsdl.VariableLengthArrayType):
                o.append(p + "emit64(static_cast<std::uint64_t>((%s).size()));" % ref)
                o.append(p + "if ((%s).size() <= %dU)" % (ref, dt.capacity))
            o.append(p + "for (std::size_t %s = 0; %s < (%s).size(); ++%s) {" % (i, i, ref, i))
            if isinstance(et, pydsdl.BooleanType):
                o.append(p + "    emit64(static_cast<bool>((%s)[%s]) ? 1U : 0U);" % (ref, i))
            else:
                self._dump_from(et, "(%s)[%s]" % (ref, i), o, ind + 1)
            o.append(p + "}")
        elif isinstance(dt, pydsdl.CompositeType):
            o.append(p + "dump_%s(%s);" % (self.fn(dt), ref))
        elif isinstance(dt, pydsdl.BooleanType):
            o.append(p + "emit64((%s) ? 1U : 0U);" % ref)
        elif isinstance(dt, pydsdl.UnsignedIntegerType):
            o.append(p + "emit64(static_cast<std::uint64_t>(%s));" % ref)
        elif isinstance(dt, pydsdl.SignedIntegerType):
            o.append(p + "emit64(static_cast<std::uint64_t>(static_cast<std::int64_t>(%s)));" % ref)
        elif isinstance(dt, pydsdl.FloatType):
            o.append(p + "%s(%s);" % ("emitf64" if dt.bit_length == 64 else "emitf32", ref))
        else:
            raise TypeError(dt)

    def emit_type(self, t):
        n = self.tname(t)
        it = M.inner(t)
        lo = ["static void load_%s(%s& o, const std::uint8_t* const s, const std::size_t n, std::size_t* const p) {" % (self.fn(t), n),
              "    (void) o; (void) s; (void) n; (void) p;"]
        du = ["static void dump_%s(const %s& o) {" % (self.fn(t), n), "    (void) o;"]
        if isinstance(it, pydsdl.UnionType):
            lo.append("    const std::uint64_t tag = rd64(s, n, p);")
            du.append("    emit64(static_cast<std::uint64_t>(o.union_value.index()));")
            for idx, f in enumerate(it.fields):
                fid = self.fid(f)
                lo.append("    %sif (tag == %dU) { auto& m = o.set_%s();" % ("else " if idx else "", idx, fid))
                self._load_into(f.data_type, "m", lo, 2)
                lo.append("    }")
                du.append("    %sif (o.is_%s()) {" % ("else " if idx else "", fid))
                self._dump_from(f.data_type, "(*o.get_%s_if())" % fid, du, 2)
                du.append("    }")
        else:
            for f in it.fields_except_padding:
                self._load_into(f.data_type, "o." + self.fid(f), lo, 1)
                self._dump_from(f.data_type, "o." + self.fid(f), du, 1)
        lo.append("}")
        du.append("}")
        return lo + du

    def consts_probe(self, t):
        n = self.tname(t)
        it = M.inner(t)
        o = ['    std::printf("EXTENT %%llu\\n", static_cast<unsigned long long>(%s::_traits_::ExtentBytes));' % n,
             '    std::printf("BUFSIZE %%llu\\n", static_cast<unsigned long long>(%s::_traits_::SerializationBufferSizeBytes));' % n]
        o.append('    std::printf("HASPORT %%d\\n", static_cast<int>(%s::_traits_::HasFixedPortID));' % n)
        owner = self.port_owner.get(self.key(t), t)       # request/response carry the port-ID of their service
        if owner.has_fixed_port_id:
            o.append('    std::printf("PORT %%llu\\n", static_cast<unsigned long long>(%s::_traits_::FixedPortId));' % n)
        if isinstance(it, pydsdl.UnionType):
            o.append('    std::printf("OPTIONS %%llu\\n", static_cast<unsigned long long>(%s::VariantType::MAX_INDEX));' % n)
        for c in it.constants:
            cn = "%s::%s" % (n, self.lang.filter_id(c))
            dt = c.data_type
            if isinstance(dt, pydsdl.FloatType):
                if dt.bit_length == 64:
                    o.append('    { double v = static_cast<double>(%s); std::uint64_t b; std::memcpy(&b, &v, 8); std::printf("CONST %s f64 %%016llx\\n", static_cast<unsigned long long>(b)); }' % (cn, c.name))
                else:
                    o.append('    { float v = static_cast<float>(%s); std::uint32_t b; std::memcpy(&b, &v, 4); std::printf("CONST %s f32 %%08x\\n", static_cast<unsigned>(b)); }' % (cn, c.name))
            elif isinstance(dt, pydsdl.BooleanType):
                o.append('    std::printf("CONST %s bool %%d\\n", static_cast<int>(%s));' % (c.name, cn))
            elif isinstance(dt, pydsdl.SignedIntegerType):
                o.append('    std::printf("CONST %s int %%lld %%d\\n", static_cast<long long>(%s), static_cast<int>((%s) < 0));' % (c.name, cn, cn))
            else:
                o.append('    std::printf("CONST %s uint %%llu %%d\\n", static_cast<unsigned long long>(%s), 0);' % (c.name, cn))
        return o

    def source(self, toplevel_types, asserts=True, copy_ops=True):
        src = []
        if asserts:
            src.append("#define VERIF_ASSERTS 1")
        src.append(PRELUDE.replace("#include <stdio.h>", "#include <cstdio>\n#include <cstdint>\n#include <utility>"))
        src.append(COUNTING_NEW)
        src += self.includes(toplevel_types)
        src.append(HELPERS)
        for t in self.order:
            src += self.emit_type(t)
        src.append("static void probe_consts(unsigned ti) { switch (ti) {")
        for i, t in enumerate(self.messages):
            src.append("  case %d: {" % i)
            src += self.consts_probe(t)
            src.append("  } break;")
        src.append("  default: break; } }")
        src.append(r'''
int main() {
    for (;;) {
        std::uint8_t hdr[22];
        if (std::fread(hdr, 1, sizeof hdr, stdin) != sizeof hdr) break;
        std::uint32_t vid, bufsize, plen, qlen; std::uint16_t ti; const std::uint8_t op = hdr[0], pre = hdr[1], prior = hdr[2], objpre = hdr[3];
        std::memcpy(&ti, hdr + 4, 2); std::memcpy(&vid, hdr + 6, 4); std::memcpy(&bufsize, hdr + 10, 4); std::memcpy(&plen, hdr + 14, 4); std::memcpy(&qlen, hdr + 18, 4);
        (void) objpre;
        std::uint8_t* payload = exact_alloc(plen); if (!read_exact(payload, plen)) break;
        std::uint8_t* prior_payload = exact_alloc(qlen); if (!read_exact(prior_payload, qlen)) break;
        std::fprintf(stderr, "V %u\n", static_cast<unsigned>(vid)); std::fflush(stderr);
        std::int32_t rc = 0; std::uint64_t rsize = 0; out_reset();
        if (op == 9) { std::printf("BEGIN %u\n", static_cast<unsigned>(ti)); probe_consts(ti); std::printf("END\n"); std::fflush(stdout); exact_free(payload, plen); exact_free(prior_payload, qlen); continue; }
        const long live_before = g_live;
        switch (ti) {''')
        for i, t in enumerate(self.messages):
            n = self.tname(t)
            src.append(r'''        case %(i)d: {
            %(n)s* o = new %(n)s();
            if (op == 1) {
                std::size_t pos = 0; load_%(f)s(*o, payload, plen, &pos);
                std::uint8_t* buf = exact_alloc(bufsize); if (bufsize) prefill(buf, bufsize, pre, vid);
                const auto r = serialize(*o, nunavut::support::bitspan(buf, bufsize));
                if (!r) { rc = -static_cast<std::int32_t>(r.error()); } else { rsize = r.value(); if (rsize <= bufsize) out_bytes(buf, static_cast<std::size_t>(rsize)); }
                exact_free(buf, bufsize);
            } else if (op == 2) {
                if (prior == 3) { (void) deserialize(*o, nunavut::support::const_bitspan(static_cast<const std::uint8_t*>(prior_payload), qlen)); }
                const auto r = deserialize(*o, nunavut::support::const_bitspan(static_cast<const std::uint8_t*>(payload), plen));
                if (!r) { rc = -static_cast<std::int32_t>(r.error()); } else { rsize = r.value(); dump_%(f)s(*o); }
            } else if (op == 3) {
                dump_%(f)s(*o);
            } else if (op == 4) {    /* copy / move / assign / destroy in the loaded state, then dump the final copy */
                std::size_t pos = 0; load_%(f)s(*o, payload, plen, &pos);
                %(n)s a(*o); %(n)s b(std::move(a)); %(n)s c; c = b; %(n)s d; d = std::move(c);
                std::size_t pos2 = 0; %(n)s e; load_%(f)s(e, prior_payload, qlen, &pos2); e = d; d = e; *o = std::move(d);
                dump_%(f)s(*o);
            }
            delete o;
        } break;''' % dict(i=i, n=n, f=self.fn(t)))
        src.append(r'''        default: rc = -99; break;
        }
        exact_free(payload, plen); exact_free(prior_payload, qlen);
        const std::int32_t live_delta = static_cast<std::int32_t>(g_live - live_before);
        const std::uint32_t olen = static_cast<std::uint32_t>(g_out_len);
        std::fwrite(&vid, 4, 1, stdout); std::fwrite(&rc, 4, 1, stdout); std::fwrite(&rsize, 8, 1, stdout); std::fwrite(&live_delta, 4, 1, stdout); std::fwrite(&olen, 4, 1, stdout);
        if (olen) std::fwrite(g_out, 1, olen, stdout);
        std::fflush(stdout);
    }
    std::free(g_out);
    return 0;
}''')
        return "\n".join(src) + "\n"
