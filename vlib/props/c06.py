"""C06 - every valid DSDL input yields generated code that builds cleanly on its own.

The real generator is run on hostile namespace sets the front end accepts; then the real toolchains judge every generated file:
each C header as a one-line C11 translation unit (clang and gcc) and inside a C++14 TU, each C++ header for every supported
standard, each Python module through compile() with SyntaxWarnings as errors and a real import in a fresh interpreter - all
under the project's own strict warning flags, parsed from verification/cmake/compiler_flag_sets/common.cmake at run time.
A resolver checks that every #include / import of a generated file resolves to a file that generation produced.
"""
import concurrent.futures
import json
import os
import random
import re
import shutil
import subprocess

import pydsdl

from vlib import common, dsdlgen, genrun

LEVEL = "exploration"
MANIFEST = {
    "category": "exploration",
    "technique": "runtime monitoring with the real toolchains as oracle: exhaustive diagnostics of strict standalone compilation / import of every generated file; include/import resolver over the generated tree; stropping contract (icontract) armed during generation",
    "text": "Hostile namespace sets (attribute, type and namespace names that are keywords or reserved patterns of the targets, reused across "
            "roles; hostile documentation incl. comment terminators, trailing backslashes and trigraphs; services, deprecated, empty and "
            "wide types, several versions, extreme constants, cross-root dependencies) are generated for C, C++ (c++14/17/20/17-pmr) "
            "and Python with serialization support on and omitted. Every header is compiled alone with -pedantic -Wall -Wextra -Werror "
            "-Wconversion ... (the project's flag set) by clang and gcc; every diagnostic is parsed (file, -W option, message) and must "
            "be explained by a listed known finding whose structural precondition holds for the input, else it is a violation. "
            "An icontract post-condition on TokenEncoder.strop (token valid and unreserved for its category) runs in-process on the same inputs."
            " Three fixed sets are always included: namespaces related by string prefix; degenerate shapes (padding only, ports without integer attributes, constants of one kind, empty service halves, unions of empties, bit arrays only); C/C++ are also generated under each language option (serialization asserts compiled as real assert(), target endianness, capacity override, float support omitted for float-free sets). Every Python module is imported alone in a fresh interpreter, its annotations are evaluated and its classes default-constructed: an unresolved module reference is a violation. A translation unit in which the preprocessor replaced a DSDL-derived identifier (known findings) is not judged further and is counted.",
    "note": "Name sets folded onto one identifier by one-way stropping are avoided by the generator. cetl++14-17 cannot be compiled offline (CETL absent). "
            "Warnings outside the project's flag set are not requested.",
}
MANIFEST["text"] += ' Shapes also cover types whose only integers are byte/utf8 and fixed bit arrays next to fixed arrays of other elements; option variants are generated over the output the plain command line left in the same directory; the cetl++14-17 flavour is compiled against a stand-in for the two CETL headers it names.'
MANIFEST["text"] += ' Further fixed sets: the coverage corpus under configuration files, a float-free set under combined options, structures all of whose fields have zero size.'


def strict_flags():
    """(C flags, extra C++ flags) from the project's own cmake flag set; built-in copy as fallback."""
    c = ["-pedantic", "-Wall", "-Wextra", "-Werror", "-Wfloat-equal", "-Wconversion", "-Wunused-parameter", "-Wunused-variable", "-Wunused-value", "-Wcast-align",
         "-Wmissing-declarations", "-Wmissing-field-initializers", "-Wdouble-promotion", "-Wswitch-enum", "-Wtype-limits"]
    cxx = ["-Wsign-conversion", "-Wsign-promo", "-Wold-style-cast", "-Wzero-as-null-pointer-constant", "-Wnon-virtual-dtor", "-Woverloaded-virtual"]
    src = "built-in copy"
    try:
        txt = open(os.path.join(common.REPO, "verification", "cmake", "compiler_flag_sets", "common.cmake")).read()
        m1 = re.search(r"list\(APPEND C_FLAG_SET(.*?)\)", txt, re.S)
        m2 = re.search(r"list\(APPEND CXX_FLAG_SET\s*\n(.*?)\)", txt, re.S)
        f1 = re.findall(r'"(-[^"]+)"', m1.group(1)) if m1 else []
        f2 = re.findall(r'"(-[^"]+)"', m2.group(1)) if m2 else []
        if len(f1) >= 5 and "-Werror" in f1:
            c, src = f1, "verification/cmake/compiler_flag_sets/common.cmake"
            if f2:
                cxx = f2
    except Exception:
        pass
    return c, cxx, src


DIAG = re.compile(r"^(?P<file>[^\s:]+):(?P<line>\d+):(?:\d+:)? (?P<sev>fatal error|error|warning): (?P<msg>.*?)(?: \[(?P<opt>-W[^\]]+)\])?$", re.M)


def parse_diags(stderr, tree):
    out = []
    for m in DIAG.finditer(stderr):
        f = m.group("file")
        rel = os.path.relpath(f, tree) if f.startswith(tree) else f
        opt = (m.group("opt") or "").replace("-Werror=", "-W").replace("-Werror,", "")
        src = ""
        try:
            with open(f if os.path.isabs(f) else os.path.join(tree, f), errors="replace") as fh:
                for i, l in enumerate(fh, 1):
                    if i == int(m.group("line")):
                        src = l.rstrip("\n")[:300]
                        break
        except OSError:
            pass
        out.append(dict(file=rel, line=int(m.group("line")), opt=opt, msg=m.group("msg")[:220], src=src))
    return out


_MACROS = {}


EXTRA_INC = {}     # output tree -> further include options its headers need (the CETL stand-in)


def macros_visible(tree, rel, std):
    """The object- and function-like macros defined once `rel` is included (the preprocessor's own list)."""
    k = (tree, rel, std)
    if k not in _MACROS:
        tu = os.path.join(tree, "_m_%s.cpp" % common.sha(rel + std)[:10])
        with open(tu, "w") as f:
            f.write('#include "%s"\n' % rel)
        r = common.run(["g++", "-std=" + std, "-dM", "-E", "-I", tree] + EXTRA_INC.get(tree, []) + [tu], timeout=300)
        os.unlink(tu)
        _MACROS[k] = set(re.findall(r"^#define (\w+)", r.stdout, re.M))
    return _MACROS[k]


def dsdl_names(t):
    return set(t.name_components) | set(field_names(t))


def generated_closure(tree, rel):
    """The generated files a translation unit for `rel` pulls in (transitive #include "...")."""
    seen, todo = set(), [rel]
    while todo:
        x = todo.pop()
        if x in seen:
            continue
        seen.add(x)
        try:
            text = open(os.path.join(tree, x), errors="replace").read()
        except OSError:
            continue
        todo += re.findall(r'^\s*#\s*include\s+"([^"]+)"', text, re.M)
    return seen


_NSPROBE = {}


def namespace_names_taken_globally(tree, rel, std, types_by_rel):
    """Namespace components of the types in this TU that cannot be opened as a namespace once the standard headers the generated
    code includes are in: decided by compiling `namespace X {}` after exactly those #include <...> lines."""
    closure = generated_closure(tree, rel)
    comps, sysinc = set(), set()
    for f in closure:
        t = types_by_rel.get(f)
        if t is not None:
            comps |= set(t.name_components[:-1])
        try:
            sysinc |= set(re.findall(r"^\s*#\s*include\s+(<[^>]+>)", open(os.path.join(tree, f), errors="replace").read(), re.M))
        except OSError:
            pass
    comps = sorted(c for c in comps if re.fullmatch(r"[A-Za-z_]\w*", c))
    k = (std, tuple(comps), tuple(sorted(sysinc)))
    if k not in _NSPROBE:
        tu = os.path.join(tree, "_n_%s.cpp" % common.sha(repr(k))[:10])
        with open(tu, "w") as f:
            f.write("".join("#include %s\n" % i for i in sorted(sysinc)))
            f.write("".join("namespace %s {}\n" % c for c in comps))
        r = common.run(["g++", "-std=" + std, "-fsyntax-only", "-fmax-errors=0", tu], timeout=300)
        os.unlink(tu)
        bad_lines = {int(x) for x in re.findall(r"_n_\w+\.cpp:(\d+):\d+: (?:error|warning)", r.stderr)}
        base = len(sysinc)
        _NSPROBE[k] = sorted(c for i, c in enumerate(comps) if (base + i + 1) in bad_lines)
    return _NSPROBE[k]


def macro_substituted_names(tree, rel, std, types_by_rel):
    """DSDL names of the types in this TU that the standard headers included by the generated code define as macros:
    the compiler then sees a token stream the generator did not write, and nothing it says about this TU can be attributed."""
    names = set()
    for f in generated_closure(tree, rel):
        t = types_by_rel.get(f)
        if t is not None:
            names |= dsdl_names(t)
    return sorted(names & macros_visible(tree, rel, std))


def compile_header(args):
    tree, rel, compiler, std, flags, as_cxx_tu = args
    tu = os.path.join(tree, "_tu_%s.%s" % (common.sha(rel + compiler + std)[:10], "cpp" if (as_cxx_tu or rel.endswith(".hpp")) else "c"))
    with open(tu, "w") as f:
        f.write('#include "%s"\n' % rel)
    cmd = [compiler, "-std=" + std, "-fsyntax-only", "-I", tree] + flags + (["-ferror-limit=0"] if "clang" in compiler else ["-fmax-errors=0"]) + [tu]
    r = common.run(cmd, timeout=600)
    os.unlink(tu)
    return rel, compiler, std, r.returncode, parse_diags(r.stderr, tree), r.stderr[-600:] if r.returncode == -999 else ""


# ------------------------------------------------------------------------------------------------ known-finding matchers
def type_of_header(rel, types_by_rel):
    return types_by_rel.get(rel)


def field_names(t):
    parts = [t.request_type, t.response_type] if isinstance(t, pydsdl.ServiceType) else [t]
    out = []
    for p in parts:
        it = p.inner_type if isinstance(p, pydsdl.DelimitedType) else p
        out += [a.name for a in it.attributes if a.name]
    return out


def namespaces_in_scope(t, alltypes):
    ns = set(t.name_components[:-1]) | {"std", "nunavut"}
    for dt in dsdlgen.composite_deps(t):
        ns |= set(dt.name_components[:-1])
    return ns


def doc_texts(t):
    parts = [t.request_type, t.response_type] if isinstance(t, pydsdl.ServiceType) else [t]
    out = [t.doc or ""]
    for p in parts:
        out.append(p.doc or "")
        it = p.inner_type if isinstance(p, pydsdl.DelimitedType) else p
        out += [a.doc or "" for a in it.attributes]
    return out


def has_union_with_varray(t):
    parts = [t.request_type, t.response_type] if isinstance(t, pydsdl.ServiceType) else [t]
    for p in parts:
        it = p.inner_type if isinstance(p, pydsdl.DelimitedType) else p
        if isinstance(it, pydsdl.UnionType) and any(isinstance(f.data_type, pydsdl.VariableLengthArrayType) for f in it.fields):
            return True
    return False


def needs_default_constructible_members(t, seen=None):
    """The type, or a type it nests, holds a fixed-length array of composites or is a union with a composite / variable-length array /
    array-of-composites alternative: members the generated C++ code value-initialises or emplaces without arguments."""
    seen = seen if seen is not None else set()
    if id(t) in seen:
        return False
    seen.add(id(t))
    parts = [t.request_type, t.response_type] if isinstance(t, pydsdl.ServiceType) else [t]
    for p in parts:
        it = p.inner_type if isinstance(p, pydsdl.DelimitedType) else p
        for f in it.fields_except_padding:
            dt = f.data_type
            if isinstance(dt, pydsdl.FixedLengthArrayType) and isinstance(dt.element_type, pydsdl.CompositeType):
                return True
            if isinstance(it, pydsdl.UnionType) and (isinstance(dt, (pydsdl.CompositeType, pydsdl.VariableLengthArrayType))):
                return True
    return any(needs_default_constructible_members(x, seen) for x in dsdlgen.composite_deps(t))


CTOR_DIAG = re.compile(r"no matching constructor for initialization|no matching function for call to|could not convert .<brace-enclosed initializer list>|"
                       r"implicitly-deleted default constructor|use of deleted function|no matching member function for call to 'emplace'|call to deleted constructor")


def classify(lang, diag, t, alltypes, omit, as_cxx=False, macros=None, cetl=False):
    """A known finding = (structural precondition on the input, diagnostic pattern); explains exactly the diagnostics it matches."""
    msg, opt = diag["msg"], diag["opt"]
    if t is None:
        return None
    if lang == "cpp" and cetl and CTOR_DIAG.search(msg) and needs_default_constructible_members(t):
        return "cpp-cetl-members-need-default-constructor"
    if lang == "cpp" and macros is not None:
        # a DSDL name of this type that the included standard headers define as a macro, used as a token on the diagnosed line
        hit = [n for n in dsdl_names(t) if re.search(r"\b%s\b" % re.escape(n), diag.get("src", ""))]
        if hit and any(n in macros() for n in hit):
            return "cpp-name-spelling-a-standard-library-macro"
    if lang == "c" and as_cxx and opt == "-Wnested-anon-types" and has_union_with_varray(t):
        return "c-union-with-variable-array-in-pedantic-cxx-tu"
    if lang in ("cpp", "c") and opt in ("-Wcomment", "-Wtrigraphs") and any(("\\" in d or "??/" in d) for d in doc_texts(t)):
        return "c-cpp-doc-comment-backslash-or-trigraph"
    return None


# headers of third-party libraries that a language-standard preset names through its options (variable_array_type_include,
# allocator_include): they are not produced by generation and are not expected to be
EXTERNAL_INCLUDES = {"cetl/variable_length_array.hpp", "cetl/pf17/sys/memory_resource.hpp"}


def resolver(lang, files):
    """Every #include "..." / import of a generated name resolves to a generated file."""
    bad = []
    names = set(files)
    tops = {x.split(os.sep)[0] for x in files if os.sep in x}
    for rel, content in files.items():
        text = content.decode("utf-8", "replace")
        if lang in ("c", "cpp"):
            for inc in re.findall(r'^\s*#\s*include\s+"([^"]+)"', text, re.M):
                if inc not in names and inc not in EXTERNAL_INCLUDES:
                    bad.append((rel, inc))
        elif lang == "py" and rel.endswith(".py"):
            for mod in re.findall(r"^\s*import\s+([A-Za-z_][\w\.]*)\s*$", text, re.M) + re.findall(r"^\s*from\s+([A-Za-z_][\w\.]*)\s+import", text, re.M):
                if mod.split(".")[0] not in tops and mod.split(".")[0] != "nunavut_support":
                    continue
                p = mod.replace(".", os.sep)
                if p + ".py" not in names and os.path.join(p, "__init__.py") not in names:
                    bad.append((rel, mod))
    return bad


# ------------------------------------------------------------------------------------------------ stropping contract during generation
class StropContractBroken(Exception):
    pass


STROP_EVALS = [0]


def arm_strop_contract():
    import icontract
    from nunavut.lang import _common as LC
    if getattr(LC.TokenEncoder.strop, "_verif", False):
        return
    from vlib.props.c09 import Predicate
    preds = {}

    def token_valid_and_unreserved(self, token, result, token_type="any"):
        STROP_EVALS[0] += 1
        if token == "":
            return True      # the property speaks about non-empty input
        # the predicate is derived from the encoder's own view of the configuration
        bad = (not isinstance(result, str)) or result == "" or (" " in result)
        if bad:
            return False
        if result in getattr(self, "_reserved_identifiers", []):
            return False
        pats = getattr(self, "_reserved_token_patterns_by_type", {})
        for tt in ("all", token_type.lower()):
            for p in pats.get(tt, []):
                if p.match(result):
                    return False
        return True
    real = LC.TokenEncoder.strop
    inner = getattr(real, "__wrapped__", real)
    wrapped = icontract.ensure(token_valid_and_unreserved, error=lambda self, token, result: StropContractBroken("strop(%r) -> %r" % (token, result)))(inner)
    wrapped._verif = True
    LC.TokenEncoder.strop = wrapped


def inprocess_generation_with_contract(ctx, dsdl_dir, roots, parsed, d):
    arm_strop_contract()
    for lang in ("c", "cpp", "py"):
        for r in roots:
            try:
                genrun.gen_inprocess(parsed[r], os.path.join(dsdl_dir, r), os.path.join(d, "out_contract_" + lang), lang)
                ctx.count("inprocess_generations_under_contract")
            except StropContractBroken as e:
                ctx.refute(None, "stropping contract broken during %s generation: %s" % (lang, e), dict(lang=lang, root=r))
            except Exception as e:
                ctx.refute(None, "in-process generation for %s failed: %r" % (lang, e), dict(lang=lang, root=r))
        shutil.rmtree(os.path.join(d, "out_contract_" + lang), ignore_errors=True)
    ctx.counters["strop_contract_evaluations"] = STROP_EVALS[0]


# ------------------------------------------------------------------------------------------------ workload
PYCHECK = r"""
import sys, json, importlib, warnings, os
out = sys.argv[1]
sys.path.insert(0, out)
res = {}
for rel in json.loads(sys.argv[2]):
    try:
        src = open(os.path.join(out, rel), encoding='utf-8').read()
        with warnings.catch_warnings():
            warnings.simplefilter('error')
            compile(src, rel, 'exec')
    except Exception as e:
        res[rel] = 'compile: %s: %s' % (type(e).__name__, str(e)[:200]); continue
    mod = rel[:-3].replace(os.sep, '.')
    if mod.endswith('.__init__'): mod = mod[:-9]
    try:
        with warnings.catch_warnings():
            warnings.simplefilter('error', SyntaxWarning)
            importlib.import_module(mod)
        res[rel] = 'ok'
    except Exception as e:
        res[rel] = 'import: %s: %s' % (type(e).__name__, str(e)[:200])
print(json.dumps(res))
"""


PYALONE = r"""
import sys, importlib, inspect, typing, os
out, rel = sys.argv[1], sys.argv[2]
sys.path.insert(0, out)
mod = rel[:-3].replace(os.sep, '.')
m = importlib.import_module(mod)
n = 0
for name, cls in sorted(vars(m).items()):
    if not (inspect.isclass(cls) and cls.__module__ == m.__name__):
        continue
    todo = [cls] + [c for c in vars(cls).values() if inspect.isclass(c) and c.__module__ == m.__name__]
    for c in todo:
        if c is not cls and not hasattr(c, '_serialize_'):
            continue
        if not hasattr(c, '_serialize_') and not hasattr(c, 'Request'):
            continue
        typing.get_type_hints(c.__init__, vars(m))
        for fn in vars(c).values():
            if isinstance(fn, property) and fn.fget is not None:
                typing.get_type_hints(fn.fget, vars(m))
        if hasattr(c, '_serialize_'):
            repr(c())
        n += 1
print('RESOLVED', n)
"""


def py_module_alone(args):
    """The module, imported first and alone in a fresh interpreter, must resolve every name its definitions mention:
    annotations are evaluated and every class is default-constructed and printed."""
    out, rel = args
    env = common.child_env()
    env["PYTHONPATH"] = os.path.join(common.VERIF, ".deps")
    p = common.run([common.PY, "-c", PYALONE, out, rel], env=env, cwd=out, timeout=300)
    m = re.search(r"RESOLVED (\d+)", p.stdout)
    if p.returncode == 0 and m:
        return rel, int(m.group(1)), ""
    frames = [os.path.relpath(f, out) for f in re.findall(r'File "([^"]+)"', p.stderr) if f.startswith(out + os.sep)]
    return rel, -1, (p.stderr.strip().splitlines() or ["rc=%d" % p.returncode])[-1][:300] + (" @" + frames[-1] if frames else "")


PREFIX_SET = {
    # namespaces related by string prefix (reg / reg.sub / regulated / reg.subx), referenced in both orders, across roots
    "reg/Leaf.1.0.dsdl": "uint8 a\n@sealed\n",
    "reg/sub/Leaf.1.0.dsdl": "uint8 a\nreg.Leaf.1.0 up\n@sealed\n",
    "reg/subx/Leaf.1.0.dsdl": "uint8 a\n@sealed\n",
    "reg/sub/deep/Leaf.1.0.dsdl": "reg.sub.Leaf.1.0 up\nreg.subx.Leaf.1.0 side\n@sealed\n",
    "regulated/Thing.1.0.dsdl": "uint8 a\nreg.Leaf.1.0[<=2] other\n@sealed\n",
    "reg/TopA.1.0.dsdl": "reg.Leaf.1.0 a\nreg.sub.Leaf.1.0 b\nregulated.Thing.1.0 c\nreg.subx.Leaf.1.0[2] d\nreg.sub.deep.Leaf.1.0[<=2] e\n@sealed\n",
    "reg/TopB.1.0.dsdl": "reg.sub.deep.Leaf.1.0 e\nreg.subx.Leaf.1.0 d\nregulated.Thing.1.0 c\nreg.sub.Leaf.1.0 b\nreg.Leaf.1.0 a\n@extent 64 * 8\n",
    "reg/TopU.1.0.dsdl": "@union\nreg.sub.Leaf.1.0 b\nregulated.Thing.1.0 c\nreg.subx.Leaf.1.0 d\n@sealed\n",
    "reg/sub/Svc.1.0.dsdl": "reg.Leaf.1.0 a\nregulated.Thing.1.0 c\n@sealed\n---\nreg.sub.deep.Leaf.1.0 e\nreg.subx.Leaf.1.0 d\n@sealed\n",
    "regulated/Back.1.0.dsdl": "reg.Leaf.1.0 a\nreg.sub.Leaf.1.0 b\nregulated.Thing.1.0 c\n@sealed\n",
}


SHAPES_SET = {
    # degenerate shapes the random generator rarely makes: nothing but padding, ports without any integer attribute, constants of one
    # kind only, empty halves of services, unions of empties, bit arrays only, nested empties in every position
    "shq/PadOnly.1.0.dsdl": "void8\n@sealed\n",
    "shq/PadOnlyDelim.1.0.dsdl": "void3\nvoid13\n@extent 64\n",
    "shq/PadWide.1.0.dsdl": "void64\nvoid64\nvoid1\n@sealed\n",
    "shq/100.PortNoInt.1.0.dsdl": "float32 x\n@sealed\n",
    "shq/101.PortBoolOnly.1.0.dsdl": "bool x\n@extent 8\n",
    "shq/7000.EmptyPort.1.0.dsdl": "@sealed\n",
    "shq/0.PortZeroNoInt.1.0.dsdl": "float32 x\n@sealed\n",          # the smallest port-ID is falsy in a template condition
    "shq/8191.PortMaxEmpty.1.0.dsdl": "@extent 0\n",
    "shq/511.SvcPortMaxNoInt.1.0.dsdl": "float64 x\n@sealed\n---\nbool y\n@sealed\n",
    # capacities at and around the limits of the length prefix types (comparisons with them must not be tautological)
    "shq/CapEdges.1.0.dsdl": "uint8[<=254] a\nuint8[<=255] b\nuint8[<=256] c\nbool[<=65535] d\nbool[<=65536] e\nuint16[<=255] f\nshq.Empty.1.0[<=255] g\n@sealed\n",
    "shq/CapEdgesU.1.0.dsdl": "@union\nuint8[<=255] b\nbool[<=65535] d\nfloat32[<=255] f\n@extent 80000 * 8\n",
    "shq/0.SvcCapEdges.1.0.dsdl": "uint8[<=255] b\n@sealed\n---\nint64[<=255] r\n@extent 4096 * 8\n",
    "shq/7001.EmptyPortDelim.1.0.dsdl": "@extent 0\n",
    "shq/200.SvcNoInt.1.0.dsdl": "bool x\n@sealed\n---\nfloat32 y\n@sealed\n",
    "shq/201.SvcEmptyReq.1.0.dsdl": "@sealed\n---\nuint8 y\n@sealed\n",
    "shq/202.SvcEmptyBoth.1.0.dsdl": "@sealed\n---\n@extent 16\n",
    "shq/SvcPadOnly.1.0.dsdl": "void16\n@sealed\n---\nvoid1\n@extent 64\n",
    "shq/SvcUnions.1.0.dsdl": "@union\nuint8 a\nshq.Empty.1.0 e\n@sealed\n---\n@union\nshq.Empty.1.0 e\nshq.PadOnly.1.0 p\n@extent 64\n",
    "shq/Empty.1.0.dsdl": "@sealed\n",
    # attribute names equal to the names generated code gives its own parameters, locals and helpers
    "shq/InternalNames.1.0.dsdl": "uint8[<=3] allocator\nuint8 rhs\nuint8 obj\nuint8 out_obj\nuint8[<=2] buffer\nuint8 in_buffer\nuint8 out_buffer\nuint8 offset_bits\n"
                                  "uint8 capacity_bits\nuint8 capacity_bytes\nuint8 other\nuint8 value\nuint8 v\nuint8 x\nuint8 result\nuint8 count\nuint8 elements\n@sealed\n",
    "shq/InternalNamesU.1.0.dsdl": "@union\nuint8[<=3] allocator\nuint8 rhs\nuint8 obj\nuint8 union_value\nuint8 tag\nuint8 index\nuint8 value\nuint8[<=2] v\nuint8 count\n@sealed\n",
    "shq/InternalNamesPy.1.0.dsdl": "uint8 self_\nuint8 cls_\nuint8 np\nuint8 numpy\nuint8 pydsdl\nuint8 nunavut_support\nuint8[<=2] x\nuint8 deserialize\nuint8 serialize\n@sealed\n",
    "shq/IntConstOnly.1.0.dsdl": "uint8 A = 1\nint64 B = -9223372036854775808\n@sealed\n",
    "shq/FloatConstOnly.1.0.dsdl": "float32 A = 1.5\nfloat64 B = 1e300\n@sealed\n",
    "shq/BoolConstOnly.1.0.dsdl": "bool A = true\n@sealed\n",
    "shq/FloatFieldIntConst.1.0.dsdl": "float16 f\nuint16 K = 7\n@sealed\n",
    "shq/BoolFieldOnly.1.0.dsdl": "bool a\n@sealed\n",
    "shq/BitsOnly.1.0.dsdl": "bool[9] a\nbool[<=9] b\n@sealed\n",
    "shq/UnionOfEmpties.1.0.dsdl": "@union\nshq.Empty.1.0 a\nshq.Empty.1.0 b\n@sealed\n",
    "shq/UnionPadMembers.1.0.dsdl": "@union\nshq.PadOnly.1.0 a\nshq.PadOnlyDelim.1.0 b\nshq.Empty.1.0[2] c\n@extent 256\n",
    "shq/HoldsEmpties.1.0.dsdl": "shq.Empty.1.0 a\nshq.Empty.1.0[3] b\nshq.Empty.1.0[<=3] c\nshq.PadOnly.1.0 d\nshq.UnionOfEmpties.1.0 e\n@sealed\n",
    "shq/OnlyEmpties.1.0.dsdl": "shq.Empty.1.0 a\nshq.Empty.1.0[3] b\n@sealed\n",      # fields, but nothing to serialize
    "shq/OneEmpty.1.0.dsdl": "shq.Empty.1.0 nothing\n@sealed\n",
    "shq/SvcOnlyEmpties.1.0.dsdl": "shq.Empty.1.0 a\n@sealed\n---\nshq.OnlyEmpties.1.0 b\nshq.Empty.1.0[2] c\n@sealed\n",
    "shq/OnlyNested.1.0.dsdl": "shq.FloatConstOnly.1.0 a\nshq.BoolFieldOnly.1.0[<=2] b\n@extent 64\n",
    "shq/ByteArrays.1.0.dsdl": "uint8[0] z0\nuint8[<=0] z1\nbyte[<=1] b\nutf8[<=1] s\n@sealed\n" if False else "byte[<=1] b\nutf8[<=1] s\nuint8[1] one\n@sealed\n",
    # the only integers are byte / utf8 (sub-kinds of the unsigned integer); fixed arrays of bits and of something else side by side
    "shq/ByteOnly.1.0.dsdl": "byte[<=8] data\n@sealed\n",
    "shq/Utf8Only.1.0.dsdl": "utf8[<=10] text\nfloat32 f\n@sealed\n",
    "shq/ByteFixedOnly.1.0.dsdl": "byte[4] data\nbool b\n@sealed\n",
    "shq/SvcByteOnly.1.0.dsdl": "utf8[<=4] q\n@sealed\n---\nbyte[2] r\n@sealed\n",
    "shq/MixedFixed.1.0.dsdl": "bool[5] flags\nfloat32[3] v\n@sealed\n",
    "shq/MixedFixedU.1.0.dsdl": "@union\nbool[12] flags\nfloat64[2] v\nshq.Empty.1.0[2] e\n@sealed\n",
    "shq/SvcMixedFixed.1.0.dsdl": "bool[3] flags\n@sealed\n---\nfloat16[3] v\nbool[2] more\n@sealed\n",
    "shq/Dep.1.0.dsdl": "@deprecated\nvoid8\n@sealed\n",
    "shq/300.DepSvc.1.0.dsdl": "@deprecated\nshq.Dep.1.0 d\n@sealed\n---\n@sealed\n",
    "shq/Wide.1.0.dsdl": "uint64 a\nint64 b\nfloat64 c\nuint64[<=2] d\ntruncated uint63 e\nsaturated int63 f\nuint64 MAXU = 18446744073709551615\n@sealed\n",
}


def write_shapes_set(dsdl_dir):
    for rel, text in SHAPES_SET.items():
        os.makedirs(os.path.dirname(os.path.join(dsdl_dir, rel)), exist_ok=True)
        with open(os.path.join(dsdl_dir, rel), "w") as f:
            f.write(text)
    roots = ["shq"]
    return roots, dsdlgen.read_all(dsdl_dir, roots), 0


INTONLY_SET = {
    # no floating point anywhere: the only kind of input omit_float_serialization_support is meant for, with every integer width in
    # scalars, fixed and variable-length arrays, unions and services
    "intq/Scalars.1.0.dsdl": "uint8 a\nint16 b\nuint32 c\nint64 d\nuint7 e\nint33 f\nbool g\nvoid5\ntruncated uint24 h\n@sealed\n",
    "intq/Fixed.1.0.dsdl": "uint8[3] a\nint16[2] b\nuint32[2] c\nint64[2] d\nbool[9] e\nuint5[3] f\n@sealed\n",
    "intq/Variable.1.0.dsdl": "uint8[<=3] a\nint16[<=300] b\nuint32[<=2] c\nint64[<=2] d\nbool[<=9] e\nuint13[<=3] f\nuint16[<=2] g\nbyte[<=4] h\nutf8[<=4] i\n@extent 1024 * 8\n",
    "intq/Un.1.0.dsdl": "@union\nuint8 a\nint32[<=4] b\nintq.Scalars.1.0 c\nuint64[2] d\n@sealed\n",
    "intq/10.Svc.1.0.dsdl": "uint16[<=5] q\nintq.Un.1.0 u\n@sealed\n---\nint64[<=2] r\nintq.Variable.1.0 v\n@sealed\n",
    "intq/Consts.1.0.dsdl": "uint8 A = 1\nint64 B = -5\nbool C = true\nuint16 v\n@sealed\n",
}


def write_intonly_set(dsdl_dir):
    for rel, text in INTONLY_SET.items():
        os.makedirs(os.path.dirname(os.path.join(dsdl_dir, rel)), exist_ok=True)
        with open(os.path.join(dsdl_dir, rel), "w") as f:
            f.write(text)
    roots = ["intq"]
    return roots, dsdlgen.read_all(dsdl_dir, roots), 0


def write_prefix_set(dsdl_dir):
    for rel, text in PREFIX_SET.items():
        os.makedirs(os.path.dirname(os.path.join(dsdl_dir, rel)), exist_ok=True)
        with open(os.path.join(dsdl_dir, rel), "w") as f:
            f.write(text)
    roots = ["reg", "regulated"]
    return roots, dsdlgen.read_all(dsdl_dir, roots), 0


def one_set(ctx, idx, cflags, cxxflags):
    R = random.Random("c06/%s/%s" % (ctx.seed, idx))
    d = ctx.sub("s%s" % idx)
    dsdl_dir = os.path.join(d, "dsdl")
    if idx == "prefix":
        roots, parsed, rejected = write_prefix_set(dsdl_dir)
    elif idx == "shapes":
        roots, parsed, rejected = write_shapes_set(dsdl_dir)
    elif idx == "intonly":
        roots, parsed, rejected = write_intonly_set(dsdl_dir)
    elif idx == "corpus":
        roots = dsdlgen.write_corpus(dsdl_dir)
        parsed, rejected = dsdlgen.read_all(dsdl_dir, roots), 0
    else:
        roots, parsed, rejected = dsdlgen.make_set(dsdl_dir, "c06/%s/%d" % (ctx.seed, idx), "hostile", nroots=2, docs=True, allow=("hostile_c_docs", "extreme_consts", "deprecated", "port_id"))
    ctx.count("drafts_rejected_by_frontend", rejected)
    alltypes = [t for r in roots for t in parsed[r]]
    witness = dict(set=idx, seed=ctx.seed, roots=roots)
    if idx in ("prefix", "shapes", "corpus", "intonly") or idx % 2 == 0:
        inprocess_generation_with_contract(ctx, dsdl_dir, roots, parsed, d)
    configs = []
    for omit in (False, True):
        configs.append(("c", [], omit))
        for std in (["c++14", "c++17-pmr"] if ctx.quick else ["c++14", "c++17", "c++20", "c++17-pmr"]):
            configs.append(("cpp", ["--language-standard", std], omit))
        if not omit and (not ctx.quick or idx in ("shapes", 0)):
            # the CETL flavour: compiled against a stand-in for the two CETL headers it names (vlib/cetl_stub; the submodule is empty here)
            configs.append(("cpp", ["--language-standard", "cetl++14-17"], omit))
        configs.append(("py", [], omit))
    if ctx.quick and idx != "shapes":
        configs = [c for c in configs if not c[2]] + R.sample([c for c in configs if c[2]], 2)
    configs = [c + ("", [], []) for c in configs] if idx != "intonly" else []
    # language option variants (C and C++): the armed serialization asserts are compiled as real assert()s
    variants = [("asserts", ["--enable-serialization-asserts"], ["-DNUNAVUT_ASSERT=assert", "-include", "assert.h"]),
                ("little", ["--target-endianness", "little"], []), ("big", ["--target-endianness", "big"], []),
                ("nofloat", ["--omit-float-serialization-support"], []), ("ovr", ["--enable-override-variable-array-capacity"], [])]
    # omit_float_serialization_support is documented to break types that use floating point: it applies to float-free sets only
    def uses_float(t):
        parts = [t.request_type, t.response_type] if isinstance(t, pydsdl.ServiceType) else [t]
        for pt in parts:
            it = pt.inner_type if isinstance(pt, pydsdl.DelimitedType) else pt
            for a in it.attributes:
                dt = a.data_type
                while isinstance(dt, pydsdl.ArrayType):
                    dt = dt.element_type
                if isinstance(dt, pydsdl.FloatType):
                    return True
        return False
    if any(uses_float(t) for t in alltypes):
        variants = [v for v in variants if v[0] != "nofloat"]
    if idx == "intonly":
        # the float-free set under the float-free option, combined with the other options (pairs of options meet here)
        nf = ["--omit-float-serialization-support"]
        variants = [("nofloat", nf, []), ("nofloat_little", nf + ["--target-endianness", "little"], []), ("nofloat_big", nf + ["--target-endianness", "big"], []),
                    ("nofloat_little_asserts", nf + ["--target-endianness", "little", "--enable-serialization-asserts"], ["-DNUNAVUT_ASSERT=assert", "-include", "assert.h"]),
                    ("nofloat_ovr", nf + ["--enable-override-variable-array-capacity"], []),
                    ("little_ovr_asserts", ["--target-endianness", "little", "--enable-override-variable-array-capacity", "--enable-serialization-asserts"],
                     ["-DNUNAVUT_ASSERT=assert", "-include", "assert.h"])]
    elif ctx.quick and idx not in ("shapes", "prefix", "corpus"):
        variants = [variants[idx % len(variants)], variants[(idx + 2) % len(variants)]]
    for vi, (vname, vflags, ccflags) in enumerate(variants):
        configs.append(("c", [], False, vname, vflags, ccflags))
        stds = ["c++14", "c++17-pmr"] if (not ctx.quick or idx == "shapes") else [["c++14", "c++17-pmr"][vi % 2]]
        for std in stds:
            configs.append(("cpp", ["--language-standard", std], False, vname, vflags, ccflags))
    if idx == "corpus":
        # the coverage corpus (plain names: nothing in it needs stropping) under configuration files that change how identifiers and
        # blank lines are treated: generation must complete and the result must build like any other
        import yaml
        configs = []
        for cname, body in (("nostrop", {"enable_stropping": False}), ("zqprefix", {"stropping_prefix": "zq_", "encoding_prefix": "zY"}),
                            ("emptylines0", {"limit_empty_lines": 0})):
            for lang_, flags_ in (("c", []), ("cpp", ["--language-standard", "c++14"]), ("cpp", ["--language-standard", "c++17-pmr"]), ("py", [])):
                cp = os.path.join(d, "cfg_%s_%s.yaml" % (cname, lang_))
                with open(cp, "w") as f:
                    yaml.safe_dump({"nunavut.lang." + lang_: body}, f)
                configs.append((lang_, flags_, False, "cfg_" + cname, ["--configuration", cp], []))
    jobs, meta = [], {}
    def tag_of(cfg):
        lang, flags, omit, vname = cfg[:4]
        return "%s_%s_%s%s" % (lang, "".join(flags[1:]).replace("+", "p") or "default", "omit" if omit else "ser", "_" + vname if vname else "")

    def generate(cfg):
        lang, flags, omit, vname, vflags, ccflags = cfg
        out = os.path.join(d, "out_" + tag_of(cfg))
        pre = False
        if vname and lang in ("c", "cpp"):
            # the output directory already holds what the same command line without the option made (a user who switches an option on
            # regenerates in place): what the directory holds afterwards must build like a fresh generation
            genrun.nnvg_all_roots(dsdl_dir, roots, out, lang, extra=flags, cwd=d)
            pre = True
        return pre, genrun.nnvg_all_roots(dsdl_dir, roots, out, lang, extra=flags + vflags + (["--omit-serialization-support"] if omit else []), cwd=d)
    with concurrent.futures.ThreadPoolExecutor(8) as ex:      # the generator runs of one set side by side (each is its own process)
        generated = list(ex.map(generate, configs))
    for (lang, flags, omit, vname, vflags, ccflags), (pre, rs) in zip(configs, generated):
        tag = tag_of((lang, flags, omit, vname))
        out = os.path.join(d, "out_" + tag)
        if pre:
            ctx.count("generations_over_output_of_other_options")
        ctx.count("evaluations")
        ctx.count("generations")
        if vname:
            ctx.count("generations_with_option[%s]" % vname)
        if any(r.returncode != 0 for r in rs):
            ctx.refute(None, "generation failed for a namespace set the front end accepts (%s)" % tag, dict(witness, config=tag, stderr=[r.stderr[-1000:] for r in rs if r.returncode][:1]))
            continue
        files = common.read_files(out)
        from nunavut.lang._common import IncludeGenerator
        lctx = genrun.lang_context(lang)
        ext = lctx.get_target_language().extension
        types_by_rel = {IncludeGenerator.make_path(t, lctx.get_target_language(), ext).as_posix(): t for t in alltypes}
        meta[tag] = dict(lang=lang, omit=omit, out=out, types_by_rel=types_by_rel, files=files)
        for rel, mod in resolver(lang, files):
            mech = "py-omit-serialization-support-not-supported" if (omit and lang == "py" and "nunavut_support" in mod) else None
            ctx.refute(mech, "%s: %s refers to %s which generating the involved namespaces does not produce" % (tag, rel, mod), dict(witness, config=tag, file=rel))
        ctx.count("references_resolved", sum(1 for _ in files))
        if lang == "c":
            for rel in files:
                if rel.endswith(".h"):
                    jobs.append((tag, (out, rel, "clang", "c11", cflags + ccflags, False)))
                    jobs.append((tag, (out, rel, "gcc", "c11", cflags + ccflags + ["-Wno-stringop-overflow"], False)))
                    if not ctx.quick or R.random() < 0.5:
                        jobs.append((tag, (out, rel, "clang++", "c++14", cflags + ccflags, True)))    # the flag set common to C and C++
        elif lang == "cpp":
            std = {"c++17-pmr": "c++17", "cetl++14-17": "c++14"}.get(flags[1], flags[1])
            cetl = ["-I", os.path.join(common.VERIF, "vlib", "cetl_stub")] if flags[1] == "cetl++14-17" else []
            meta[tag]["cetl"] = bool(cetl)
            if cetl:
                EXTRA_INC[out] = cetl
            for rel in files:
                if rel.endswith(".hpp"):
                    jobs.append((tag, (out, rel, "clang++", std, cflags + cxxflags + ccflags + cetl, False)))
                    if not ctx.quick or R.random() < 0.5:
                        jobs.append((tag, (out, rel, "g++", "c++17" if cetl else std, cflags + cxxflags + ccflags + cetl + ["-Wno-stringop-overflow"], False)))
        else:
            rels = sorted(r for r in files if r.endswith(".py"))
            env = common.child_env()
            env["PYTHONPATH"] = os.path.join(common.VERIF, ".deps")
            p = common.run([common.PY, "-W", "error::SyntaxWarning", "-c", PYCHECK, out, json.dumps(rels)], env=env, cwd=out, timeout=900)
            try:
                res = json.loads(p.stdout.strip().splitlines()[-1])
            except Exception:
                ctx.refute(None, "%s: python module check crashed" % tag, dict(witness, stderr=p.stderr[-800:]))
                res = {}
            if not omit:
                cand = [r for r in rels if not r.endswith("__init__.py") and not r.startswith("nunavut_support")]
                if ctx.quick and len(cand) > 32:
                    cand = R.sample(cand, 32)
                with concurrent.futures.ThreadPoolExecutor(common.NCPU) as ex:
                    for rel, n, err in ex.map(py_module_alone, [(out, r) for r in cand]):
                        ctx.count("evaluations")
                        ctx.count("python_modules_resolved_alone_in_fresh_interpreter")
                        if n < 0 and re.search(r"NameError: name '\w+' is not defined|AttributeError: module '[\w\.]+' has no attribute|ModuleNotFoundError|ImportError", err):
                            ctx.refute(None, "%s: module %s imported alone refers to a module it does not import: %s" % (tag, rel, err[:200]), dict(witness, config=tag, file=rel, error=err))
                        elif n < 0:
                            # anything else raised by default construction is the API's behaviour (C18), not a missing module
                            ctx.count("python_default_construction_failed_otherwise_not_judged_here")
                        else:
                            ctx.count("python_classes_default_constructed", n)
            for rel, st in sorted(res.items()):
                ctx.count("evaluations")
                ctx.count("python_modules_checked")
                if st == "ok":
                    ctx.count("python_modules_ok")
                    ctx.distinct((idx, tag, rel))
                else:
                    t = types_by_rel.get(rel)
                    mech = None
                    if omit and "nunavut_support" in st:
                        mech = "py-omit-serialization-support-not-supported"
                    elif t is not None and "AttributeError" in st and set(field_names(t)) & {x.name_components[0] for x in [t] + list(dsdlgen.composite_deps(t))}:
                        mech = "py-field-named-like-root-namespace-shadows-module"
                    ctx.refute(mech, "%s: module %s: %s" % (tag, rel, st[:160]), dict(witness, config=tag, file=rel))
    with concurrent.futures.ThreadPoolExecutor(common.NCPU) as ex:
        results = list(ex.map(compile_header, [j for _, j in jobs]))
    for (tag, j), (rel, compiler, std, rc, diags, wd) in zip(jobs, results):
        m = meta[tag]
        ctx.count("evaluations")
        ctx.count("translation_units")
        if rc == -999:
            ctx.inconclusive_because("compiler watchdog on %s" % rel)
            continue
        t = m["types_by_rel"].get(rel)
        if rc == 0 and not diags:
            ctx.count("translation_units_clean")
            ctx.distinct((idx, tag, rel, compiler))
            continue
        explained = 0
        seen = set()
        tree = j[0]
        mechs = []
        for dg in diags:
            t2 = t or m["types_by_rel"].get(dg["file"])
            tt = m["types_by_rel"].get(dg["file"]) or t2
            mechs.append(classify(m["lang"], dg, tt, None, m["omit"], as_cxx=(m["lang"] == "c" and compiler.endswith("++")),
                                  macros=(lambda: macros_visible(tree, rel, std)) if m["lang"] == "cpp" else None, cetl=m.get("cetl", False))
                         or (classify(m["lang"], dg, t, None, m["omit"], cetl=True) if (m.get("cetl") and t is not None and tt is not t) else None))
        if m["lang"] == "cpp" and diags:
            subst = macro_substituted_names(tree, rel, std, m["types_by_rel"])
            if subst:
                ctx.count("translation_units_with_macro_substituted_dsdl_name")
                ctx.distinct(("macro-substituted", tuple(subst)))
                mechs = ["cpp-name-spelling-a-standard-library-macro" for mc in mechs]
            taken = namespace_names_taken_globally(tree, rel, std, m["types_by_rel"])
            if taken:
                ctx.count("translation_units_with_namespace_named_like_global_c_name")
                ctx.distinct(("namespace-taken", tuple(taken)))
                mechs = ["cpp-namespace-named-like-global-c-library-name" for mc in mechs]
        # a diagnostic on the very line of an explained one is its follow-on (e.g. "extra ';'" after "does not name a type")
        by_line = {(dg["file"], dg["line"]): mc for dg, mc in zip(diags, mechs) if mc}
        for dg, mech in zip(diags, mechs):
            t2 = t or m["types_by_rel"].get(dg["file"])
            mech = mech or by_line.get((dg["file"], dg["line"]))
            key = (mech, dg["opt"], re.sub(r"'[^']*'|\d+", "N", dg["msg"])[:80])
            if key in seen:
                explained += 1 if mech else 0
                continue
            seen.add(key)
            what = "%s: %s [%s -std=%s] %s: %s %s" % (tag, rel, compiler, std, dg["file"] + ":" + str(dg["line"]), dg["msg"][:150], dg["opt"])
            ctx.count("diagnostics")
            ctx.refute(mech, what, dict(witness, config=tag, header=rel, compiler=compiler, std=std, diagnostic=dg, type=str(t2) if t2 else None))
        if not diags and rc != 0:
            ctx.refute(None, "%s: %s does not compile with %s (no parsable diagnostic)" % (tag, rel, compiler), dict(witness, config=tag))
    ctx.sample({"set": idx, "roots": roots, "types": [str(t) for t in alltypes][:8]})
    if not os.environ.get("VERIF_KEEP"):
        shutil.rmtree(d, ignore_errors=True)


def run(ctx):
    cflags, cxxflags, src = strict_flags()
    ctx.extra["strict_flags_source"] = src
    ctx.extra["strict_flags"] = dict(c=cflags, cxx_extra=cxxflags)
    ctx.rule = ("case = (namespace set, language, standard, serialization on/omitted, generated file, compiler); distinct = distinct (file, compiler) translation units "
                "and modules that built/imported without any diagnostic")
    one_set(ctx, "prefix", cflags, cxxflags)
    one_set(ctx, "shapes", cflags, cxxflags)
    one_set(ctx, "corpus", cflags, cxxflags)
    one_set(ctx, "intonly", cflags, cxxflags)
    for i in range(ctx.pick(3, 40)):
        one_set(ctx, i, cflags, cxxflags)
    ctx.require("translation_units_clean", 100)
    ctx.require("python_modules_ok", 20)
    ctx.require("generations", 10)
    ctx.require("strop_contract_evaluations", 200)
