"""E4 - C harness generator: one translation unit that includes every generated header and provides, per type,
load (value stream -> object), dump (object -> value stream) and a framed stdin/stdout driver with exact-size heap buffers.
Identifiers come from the same Language object that generated the code."""
import pydsdl

from vlib import refmodel as M

PRELUDE = r'''
#include <stdio.h>
#include <stdlib.h>
#include <string.h>
#include <stdint.h>
#include <stdbool.h>
#include <stddef.h>
#if defined(__has_feature)
#  if __has_feature(address_sanitizer)
#    define VERIF_ASAN 1
#  endif
#endif
#if defined(__SANITIZE_ADDRESS__)
#  define VERIF_ASAN 1
#endif
#ifdef VERIF_ASAN
#  include <sanitizer/asan_interface.h>
#  define VERIF_POISON(p, n) ASAN_POISON_MEMORY_REGION((p), (n))
#  define VERIF_UNPOISON(p, n) ASAN_UNPOISON_MEMORY_REGION((p), (n))
#else
#  define VERIF_POISON(p, n) ((void)0)
#  define VERIF_UNPOISON(p, n) ((void)0)
#endif
#ifdef VERIF_ASSERTS
#  define NUNAVUT_ASSERT(x) do { if (!(x)) { fprintf(stderr, "NUNAVUT_ASSERT_FAILED %s:%d %s\n", __FILE__, __LINE__, #x); fflush(stderr); abort(); } } while (0)
#endif
'''

HELPERS = r'''
static uint8_t* g_out = NULL; static size_t g_out_len = 0, g_out_cap = 0;
static void out_reset(void) { g_out_len = 0; }
static void out_bytes(const void* p, size_t n) {
    if (g_out_len + n > g_out_cap) { g_out_cap = (g_out_len + n) * 2 + 64; g_out = (uint8_t*) realloc(g_out, g_out_cap); if (!g_out) abort(); }
    if (n) memcpy(g_out + g_out_len, p, n);
    g_out_len += n;
}
static void emit64(uint64_t v) { out_bytes(&v, 8); }
static uint64_t rd64(const uint8_t* s, size_t n, size_t* p) { uint64_t v = 0; if (*p + 8 <= n) memcpy(&v, s + *p, 8); *p += 8; return v; }
static void emitf32(float f) { uint32_t b; memcpy(&b, &f, 4); emit64((uint64_t) b); }
static void emitf64(double f) { uint64_t b; memcpy(&b, &f, 8); emit64(b); }
static float ldf32(uint64_t v) { uint32_t b = (uint32_t) v; float f; memcpy(&f, &b, 4); return f; }
static double ldf64(uint64_t v) { double f; memcpy(&f, &v, 8); return f; }
static int read_exact(void* p, size_t n) { return n == 0 || fread(p, 1, n, stdin) == n; }
static uint8_t* exact_alloc(size_t n) { uint8_t* b = (uint8_t*) malloc(n ? n : 1); if (!b) abort(); if (!n) { b[0] = 0x5A; VERIF_POISON(b, 1); } return b; }
static void exact_free(uint8_t* b, size_t n) { if (!n) VERIF_UNPOISON(b, 1); free(b); }
static void prefill(uint8_t* b, size_t n, unsigned pat, unsigned seed) {
    if (pat == 0) memset(b, 0x00, n); else if (pat == 1) memset(b, 0xFF, n); else if (pat == 2) memset(b, 0xA5, n);
    else { uint32_t x = 2463534242u ^ seed; for (size_t i = 0; i < n; ++i) { x ^= x << 13; x ^= x >> 17; x ^= x << 5; b[i] = (uint8_t) x; } }
}
'''


def ctype(t):
    if isinstance(t, pydsdl.BooleanType):
        return "bool"
    if isinstance(t, pydsdl.FloatType):
        return "double" if t.bit_length == 64 else "float"
    sb = M.storage_bits(t)
    return ("uint%d_t" if isinstance(t, pydsdl.UnsignedIntegerType) else "int%d_t") % sb


class CHarness:
    def __init__(self, lang, messages, asserts=True):
        """messages: list of message-like types (CompositeType, incl. service request/response) to expose, in any order."""
        from nunavut.lang.c import filter_full_reference_name
        self.lang = lang
        self._frn = filter_full_reference_name
        self.uid = 0
        self.order = self._toposort(messages)
        self.messages = list(messages)
        self.index = {self.key(t): i for i, t in enumerate(self.messages)}

    @staticmethod
    def key(t):
        return "%s.%d.%d" % (t.full_name, t.version.major, t.version.minor)

    def tname(self, t):
        return self._frn(self.lang, t)

    def fid(self, f):
        return self.lang.filter_id(f)

    def _toposort(self, types):
        seen, order = set(), []

        def visit(t):
            k = self.key(t)
            if k in seen:
                return
            seen.add(k)
            for f in M.inner(t).fields_except_padding:
                dt = f.data_type
                while isinstance(dt, pydsdl.ArrayType):
                    dt = dt.element_type
                if isinstance(dt, pydsdl.CompositeType):
                    visit(dt)
            order.append(t)
        for t in types:
            visit(t)
        return order

    def includes(self, toplevel_types):
        from nunavut.lang._common import IncludeGenerator
        return ['#include "%s"' % IncludeGenerator.make_path(t, self.lang, self.lang.extension).as_posix() for t in toplevel_types]

    # ---- load
    def _load(self, t, ref, o, ind):
        p = "    " * ind
        if isinstance(t, pydsdl.BooleanType):
            o.append(p + "%s = (rd64(s, n, p) != 0);" % ref)
        elif isinstance(t, pydsdl.UnsignedIntegerType):
            o.append(p + "%s = (%s) rd64(s, n, p);" % (ref, ctype(t)))
        elif isinstance(t, pydsdl.SignedIntegerType):
            o.append(p + "%s = (%s) (int64_t) rd64(s, n, p);" % (ref, ctype(t)))
        elif isinstance(t, pydsdl.FloatType):
            o.append(p + "%s = %s(rd64(s, n, p));" % (ref, "ldf64" if t.bit_length == 64 else "ldf32"))
        elif isinstance(t, pydsdl.CompositeType):
            o.append(p + "load_%s(&(%s), s, n, p);" % (self.tname(t), ref))
        else:
            raise TypeError(t)

    def _load_array(self, dt, ref, fixed_bits_name, o, ind):
        p = "    " * ind
        self.uid += 1
        i = "i%d" % self.uid
        var = isinstance(dt, pydsdl.VariableLengthArrayType)
        et = dt.element_type
        if var:
            o.append(p + "{ const uint64_t cnt = rd64(s, n, p); %s.count = (size_t) cnt;" % ref)
            o.append(p + "  const size_t lim = (cnt > %dULL) ? %dU : (size_t) cnt;" % (dt.capacity, dt.capacity))
        else:
            o.append(p + "{ const size_t lim = %dU;" % dt.capacity)
        o.append(p + "  for (size_t %s = 0; %s < lim; ++%s) {" % (i, i, i))
        if isinstance(et, pydsdl.BooleanType):
            arr = (ref + ".bitpacked") if var else fixed_bits_name
            o.append(p + "    if (rd64(s, n, p)) %s[%s / 8U] = (uint8_t) (%s[%s / 8U] | (1U << (%s %% 8U))); else %s[%s / 8U] = (uint8_t) (%s[%s / 8U] & ~(1U << (%s %% 8U)));" % (
                arr, i, arr, i, i, arr, i, arr, i, i))
        else:
            el = (ref + ".elements[%s]" % i) if var else (ref + "[%s]" % i)
            self._load(et, el, o, ind + 2)
        o.append(p + "  } }")

    def _dump(self, t, ref, o, ind):
        p = "    " * ind
        if isinstance(t, pydsdl.BooleanType):
            o.append(p + "emit64((%s) ? 1U : 0U);" % ref)
        elif isinstance(t, pydsdl.UnsignedIntegerType):
            o.append(p + "emit64((uint64_t) (%s));" % ref)
        elif isinstance(t, pydsdl.SignedIntegerType):
            o.append(p + "emit64((uint64_t) (int64_t) (%s));" % ref)
        elif isinstance(t, pydsdl.FloatType):
            o.append(p + "%s(%s);" % ("emitf64" if t.bit_length == 64 else "emitf32", ref))
        elif isinstance(t, pydsdl.CompositeType):
            o.append(p + "dump_%s(&(%s));" % (self.tname(t), ref))
        else:
            raise TypeError(t)

    def _dump_array(self, dt, ref, fixed_bits_name, o, ind):
        p = "    " * ind
        self.uid += 1
        i = "i%d" % self.uid
        var = isinstance(dt, pydsdl.VariableLengthArrayType)
        et = dt.element_type
        if var:
            o.append(p + "{ emit64((uint64_t) %s.count); const size_t lim = (%s.count > %dU) ? 0U : %s.count;" % (ref, ref, dt.capacity, ref))
        else:
            o.append(p + "{ const size_t lim = %dU;" % dt.capacity)
        o.append(p + "  for (size_t %s = 0; %s < lim; ++%s) {" % (i, i, i))
        if isinstance(et, pydsdl.BooleanType):
            arr = (ref + ".bitpacked") if var else fixed_bits_name
            o.append(p + "    emit64((%s[%s / 8U] >> (%s %% 8U)) & 1U);" % (arr, i, i))
        else:
            el = (ref + ".elements[%s]" % i) if var else (ref + "[%s]" % i)
            self._dump(et, el, o, ind + 2)
        o.append(p + "  } }")

    def _field(self, f, o_load, o_dump, ind):
        dt = f.data_type
        ref = "o->" + self.fid(f)
        if isinstance(dt, pydsdl.ArrayType):
            bits = "o->%s_bitpacked_" % self.fid(f)
            self._load_array(dt, ref, bits, o_load, ind)
            self._dump_array(dt, ref, bits, o_dump, ind)
        else:
            self._load(dt, ref, o_load, ind)
            self._dump(dt, ref, o_dump, ind)

    def emit_type(self, t):
        n = self.tname(t)
        it = M.inner(t)
        lo, du = [], []
        lo.append("static void load_%s(%s* const o, const uint8_t* const s, const size_t n, size_t* const p) {" % (n, n))
        du.append("static void dump_%s(const %s* const o) {" % (n, n))
        lo.append("    (void) o; (void) s; (void) n; (void) p;")
        du.append("    (void) o;")
        if isinstance(it, pydsdl.UnionType):
            # stored with the width of the generated tag member (a uint8_t cast would fold option 256 onto option 0)
            lo.append("    { const uint64_t tag = rd64(s, n, p); o->_tag_ = (uint%d_t) tag;" % max(8, it.tag_field_type.bit_length))
            du.append("    emit64((uint64_t) o->_tag_);")
            for idx, f in enumerate(it.fields):
                lo.append("    %sif (tag == %dU) {" % ("else " if idx else "", idx))
                du.append("    %sif (o->_tag_ == %dU) {" % ("else " if idx else "", idx))
                self._field(f, lo, du, 2)
                lo.append("    }")
                du.append("    }")
            lo.append("    }")
        else:
            for f in it.fields_except_padding:
                self._field(f, lo, du, 1)
        lo.append("}")
        du.append("}")
        return lo + du

    def consts_probe(self, t):
        """C05: print exported constants of a type as text lines 'name kind value'."""
        n = self.tname(t)
        it = M.inner(t)
        o = ['    printf("EXTENT %%llu\\n", (unsigned long long) %s_EXTENT_BYTES_);' % n,
             '    printf("BUFSIZE %%llu\\n", (unsigned long long) %s_SERIALIZATION_BUFFER_SIZE_BYTES_);' % n,
             '    printf("FULLNAME %%s\\n", %s_FULL_NAME_);' % n,
             '    printf("FULLNAMEVER %%s\\n", %s_FULL_NAME_AND_VERSION_);' % n]
        if not t.has_parent_service:
            o.append('    printf("HASPORT %%d\\n", (int) %s_HAS_FIXED_PORT_ID_);' % n)
            if t.has_fixed_port_id:
                o.append('    printf("PORT %%llu\\n", (unsigned long long) %s_FIXED_PORT_ID_);' % n)
        if isinstance(it, pydsdl.UnionType):
            o.append('    printf("OPTIONS %%llu\\n", (unsigned long long) %s_UNION_OPTION_COUNT_);' % n)
        for f in it.fields_except_padding:
            if isinstance(f.data_type, pydsdl.ArrayType):
                o.append('    printf("CAP %s %%llu\\n", (unsigned long long) %s_%s_ARRAY_CAPACITY_);' % (f.name, n, self.fid(f)))
        for c in it.constants:
            cn = "%s_%s" % (n, c.name)   # the C template emits the raw constant name after the type prefix
            dt = c.data_type
            if isinstance(dt, pydsdl.FloatType):
                if dt.bit_length == 64:
                    o.append('    { double v = (double) (%s); uint64_t b; memcpy(&b, &v, 8); printf("CONST %s f64 %%016llx\\n", (unsigned long long) b); }' % (cn, c.name))
                else:
                    o.append('    { float v = (float) (%s); uint32_t b; memcpy(&b, &v, 4); printf("CONST %s f32 %%08x\\n", (unsigned) b); }' % (cn, c.name))
            elif isinstance(dt, pydsdl.BooleanType):
                o.append('    printf("CONST %s bool %%d\\n", (int) (%s));' % (c.name, cn))
            elif isinstance(dt, pydsdl.SignedIntegerType):
                o.append('    printf("CONST %s int %%lld %%d\\n", (long long) (%s), (int) ((%s) < 0));' % (c.name, cn, cn))
            else:
                o.append('    printf("CONST %s uint %%llu %%d\\n", (unsigned long long) (%s), (int) ((%s) < 0));' % (c.name, cn, cn))
        return o

    def source(self, toplevel_types, asserts=True):
        src = []
        if asserts:
            src.append("#define VERIF_ASSERTS 1")
        src.append(PRELUDE)
        src += self.includes(toplevel_types)
        src.append(HELPERS)
        for t in self.order:
            src += self.emit_type(t)
        # constants
        src.append("static void probe_consts(unsigned ti) { switch (ti) {")
        for i, t in enumerate(self.messages):
            src.append("  case %d: {" % i)
            src += self.consts_probe(t)
            src.append("  } break;")
        src.append("  default: break; } }")
        # driver
        src.append(r'''
int main(void) {
    for (;;) {
        uint8_t hdr[22];
        if (fread(hdr, 1, sizeof hdr, stdin) != sizeof hdr) break;
        uint32_t vid, bufsize, plen, qlen; uint16_t ti; uint8_t op = hdr[0], pre = hdr[1], prior = hdr[2], objpre = hdr[3];
        memcpy(&ti, hdr + 4, 2); memcpy(&vid, hdr + 6, 4); memcpy(&bufsize, hdr + 10, 4); memcpy(&plen, hdr + 14, 4); memcpy(&qlen, hdr + 18, 4);
        uint8_t* payload = exact_alloc(plen); if (!read_exact(payload, plen)) break;
        uint8_t* prior_payload = exact_alloc(qlen); if (!read_exact(prior_payload, qlen)) break;
        fprintf(stderr, "V %u\n", (unsigned) vid); fflush(stderr);
        int32_t rc = 0; uint64_t rsize = 0; out_reset();
        if (op == 9) { printf("BEGIN %u\n", (unsigned) ti); probe_consts(ti); printf("END\n"); fflush(stdout); exact_free(payload, plen); exact_free(prior_payload, qlen); continue; }
        switch (ti) {''')
        for i, t in enumerate(self.messages):
            n = self.tname(t)
            src.append(r'''        case %(i)d: {
            %(n)s* o = (%(n)s*) malloc(sizeof(%(n)s)); if (!o) abort();
            if (op == 1) {           /* serialize */
                prefill((uint8_t*) o, sizeof(%(n)s), objpre, vid);
                size_t pos = 0; load_%(n)s(o, payload, plen, &pos);
                uint8_t* buf = exact_alloc(bufsize); if (bufsize) prefill(buf, bufsize, pre, vid);
                size_t sz = bufsize;
                rc = %(n)s_serialize_(o, buf, &sz); rsize = sz;
                if (rc >= 0 && sz <= bufsize) out_bytes(buf, sz);
                exact_free(buf, bufsize);
            } else if (op == 2) {    /* deserialize */
                if (prior == 0) memset(o, 0, sizeof(%(n)s)); else if (prior == 1) memset(o, 0xFF, sizeof(%(n)s)); else if (prior == 2) prefill((uint8_t*) o, sizeof(%(n)s), 3, vid);
                else { memset(o, 0, sizeof(%(n)s)); size_t qs = qlen; (void) %(n)s_deserialize_(o, qlen ? prior_payload : NULL, &qs); }
                size_t sz = plen;
                rc = %(n)s_deserialize_(o, (plen || pre) ? payload : NULL, &sz); rsize = sz;
                if (rc >= 0) dump_%(n)s(o);
            } else if (op == 3) {    /* initialize + dump */
                memset(o, 0xFF, sizeof(%(n)s)); %(n)s_initialize_(o); dump_%(n)s(o);
            }
            free(o);
        } break;''' % dict(i=i, n=n))
        src.append(r'''        default: rc = -99; break;
        }
        exact_free(payload, plen); exact_free(prior_payload, qlen);
        uint32_t olen = (uint32_t) g_out_len;
        int32_t live_delta = 0;
        fwrite(&vid, 4, 1, stdout); fwrite(&rc, 4, 1, stdout); fwrite(&rsize, 8, 1, stdout); fwrite(&live_delta, 4, 1, stdout); fwrite(&olen, 4, 1, stdout);
        if (olen) fwrite(g_out, 1, olen, stdout);
        fflush(stdout);
    }
    free(g_out);
    return 0;
}''')
        return "\n".join(src) + "\n"
