"""E4 - parent side of the Python-target harness: spawns a child interpreter over a generated output tree."""
import json
import os
import subprocess
import threading

from vlib import common


class PyChild:
    def __init__(self, out_dir, dsdl_dir, roots, shim=True, python_opts=()):
        env = common.child_env()
        env["PYTHONPATH"] = os.pathsep.join([out_dir, common.VERIF, os.path.join(common.VERIF, ".deps")])
        self.p = subprocess.Popen([common.PY] + list(python_opts) + ["-m", "vlib.pychild"], stdin=subprocess.PIPE, stdout=subprocess.PIPE, stderr=subprocess.PIPE,
                                  text=True, env=env, cwd=out_dir)
        self.err = []
        self._t = threading.Thread(target=self._drain, daemon=True)
        self._t.start()
        self.p.stdin.write(json.dumps({"dsdl": dsdl_dir, "roots": roots, "shim": shim}) + "\n")
        self.p.stdin.flush()
        line = self.p.stdout.readline()
        if not line:
            raise RuntimeError("python child failed to start: %s" % "".join(self.err)[-1500:])
        self.hello = json.loads(line)
        self.n = 0

    def _drain(self):
        for l in self.p.stderr:
            self.err.append(l)
            if len(self.err) > 200:
                del self.err[:100]

    def call(self, cmd):
        self.n += 1
        cmd = dict(cmd, id=self.n)
        self.p.stdin.write(json.dumps(cmd) + "\n")
        self.p.stdin.flush()
        line = self.p.stdout.readline()
        if not line:
            raise RuntimeError("python child died: %s" % "".join(self.err)[-1500:])
        return json.loads(line)

    def call_many(self, cmds):
        """Pipelined: a writer thread feeds the commands while this thread reads the answers (the child answers in order);
        writing everything first would dead-lock once both pipes are full."""
        lines = []
        for c in cmds:
            self.n += 1
            lines.append(json.dumps(dict(c, id=self.n)) + "\n")

        def feed():
            try:
                for l in lines:
                    self.p.stdin.write(l)
                self.p.stdin.flush()
            except Exception:
                pass
        t = threading.Thread(target=feed, daemon=True)
        t.start()
        out = []
        for _ in lines:
            line = self.p.stdout.readline()
            if not line:
                raise RuntimeError("python child died: %s" % "".join(self.err)[-1500:])
            out.append(json.loads(line))
        t.join()
        return out

    def close(self):
        try:
            self.p.stdin.close()
            self.p.wait(timeout=20)
        except Exception:
            self.p.kill()
