"""Shared workload plumbing for the codec properties (C01-C05): namespace sets, code-base matrices, vector generators."""
import concurrent.futures
import os
import random
import shutil

import pydsdl

from vlib import codec, common, dsdlgen, refmodel as M


def make_sets(ctx, n, tag, with_corpus=True, allow=()):
    """Returns [(index, dsdl_dir, roots, parsed)] - set 0 is the fixed template-branch coverage corpus."""
    sets = []
    if with_corpus:
        d = ctx.sub("set_corpus")
        roots = dsdlgen.write_corpus(os.path.join(d, "dsdl"))
        sets.append(("corpus", os.path.join(d, "dsdl"), roots, dsdlgen.read_all(os.path.join(d, "dsdl"), roots)))
    for i in range(n):
        d = ctx.sub("set_%d" % i)
        roots, parsed, _ = dsdlgen.make_set(os.path.join(d, "dsdl"), "%s/%s/%d" % (tag, ctx.seed, i), "codec", nroots=2, docs=False, allow=allow)
        sets.append((i, os.path.join(d, "dsdl"), roots, parsed))
    return sets


BIGU = "@union\n" + "".join("uint8 o%d\n" % i for i in range(255)) + "uint16 w255\nuint8[<=3] a256\nint32 x257\nfloat32 f258\nuint8 o259\n@sealed\n"


def big_union_set(ctx):
    """A union with more than 256 options (a 16-bit tag), alone and nested.  Its own small set: the std::variant flavours of C++ cannot
    take part (clang stops at 256 alternatives without -fbracket-depth and needs half a minute per translation unit with it)."""
    d = ctx.sub("set_bigunion")
    os.makedirs(os.path.join(d, "dsdl", "bigq"), exist_ok=True)
    with open(os.path.join(d, "dsdl", "bigq", "BigU.1.0.dsdl"), "w") as f:
        f.write(BIGU)
    with open(os.path.join(d, "dsdl", "bigq", "BigUHolder.1.0.dsdl"), "w") as f:
        f.write("uint8 pre\nbigq.BigU.1.0 u\nbigq.BigU.1.0[<=2] us\n@sealed\n")
    roots = ["bigq"]
    return ("bigunion", os.path.join(d, "dsdl"), roots, dsdlgen.read_all(os.path.join(d, "dsdl"), roots))


def base_specs(tier_quick, index, want=("c", "cpp", "py")):
    """The option matrix for one set.  Quick rotates through the matrix with the set index; thorough takes all of it."""
    if index == "bigunion":
        return [s for s in (dict(lang="c", name="c_any", flags=[]), dict(lang="c", name="c_little", flags=["--target-endianness", "little"]),
                            dict(lang="cpp", std="c++14", name="cpp14"), dict(lang="py", name="py")) if s["lang"] in want]
    c = [dict(lang="c", name="c_any", flags=[]),
         dict(lang="c", name="c_little", flags=["--target-endianness", "little"]),
         dict(lang="c", name="c_big_noassert", flags=["--target-endianness", "big"], asserts=False),
         dict(lang="c", name="c_ovr", flags=["--enable-override-variable-array-capacity"]),
         dict(lang="c", name="c_any_gcc", flags=[], kind="gcc")]
    cpp = [dict(lang="cpp", std="c++14", name="cpp14"),
           dict(lang="cpp", std="c++17-pmr", name="cpp17pmr"),
           dict(lang="cpp", std="c++17", name="cpp17", flags=["--target-endianness", "little"]),
           dict(lang="cpp", std="c++20", name="cpp20", asserts=False)]
    py = [dict(lang="py", name="py")]
    out = []
    i = index if isinstance(index, int) else 0
    if "c" in want:
        # quick: the fixed coverage corpus gets every option variant of C (cheap to build), random sets rotate through them
        out += ([c[0], c[1], c[3]] if index == "corpus" else [c[0], c[1 + i % 3]]) if tier_quick else c
    if "cpp" in want:
        out += [cpp[0], cpp[1 + i % 3]] if tier_quick else cpp
    if "py" in want:
        out += py
    return out


def build_one(args):
    workdir, dsdl_dir, roots, parsed, spec = args
    try:
        if spec["lang"] == "c":
            return codec.CBase(workdir, dsdl_dir, roots, parsed, flags=spec.get("flags", []), kind=spec.get("kind", "asan"), asserts=spec.get("asserts", True),
                               defines=spec.get("defines", ()), name=spec["name"])
        if spec["lang"] == "cpp":
            return codec.CppBase(workdir, dsdl_dir, roots, parsed, std=spec["std"], flags=spec.get("flags", []), kind=spec.get("kind", "asan"),
                                 asserts=spec.get("asserts", True), name=spec["name"], config=spec.get("config"))
        return codec.PyBase(workdir, dsdl_dir, roots, parsed, flags=spec.get("flags", []), name=spec["name"])
    except Exception as e:
        import traceback

        class Failed:
            pass
        f = Failed()
        f.name, f.error, f.lang = spec["name"], ("checker", traceback.format_exc()[-1500:]), spec["lang"]
        return f


def build_bases(workdir, dsdl_dir, roots, parsed, specs, workers=8):
    with concurrent.futures.ThreadPoolExecutor(workers) as ex:
        return list(ex.map(build_one, [(workdir, dsdl_dir, roots, parsed, s) for s in specs]))


def bufbound(t):
    return (M.inner(t).bit_length_set.max + 7) // 8


def features(t):
    """Feature vector of a type (kinds x widths x alignment x nesting x containers) for distinct counting."""
    it = M.inner(t)
    fs = set()
    off_aligned = True
    for f in it.fields:
        dt = f.data_type
        k = type(dt).__name__
        if isinstance(dt, pydsdl.ArrayType):
            k += "<%s>" % type(dt.element_type).__name__
            w = getattr(dt.element_type, "bit_length", 0) if isinstance(dt.element_type, pydsdl.PrimitiveType) else 0
        else:
            w = getattr(dt, "bit_length", 0) if isinstance(dt, (pydsdl.PrimitiveType, pydsdl.VoidType)) else 0
        cm = getattr(getattr(dt, "cast_mode", None), "name", "")
        fs.add((k, w if w in (1, 8, 16, 32, 64) else ("odd" if w else 0), cm, off_aligned))
        if isinstance(dt, (pydsdl.PrimitiveType, pydsdl.VoidType)) and dt.bit_length % 8:
            off_aligned = False
        if isinstance(dt, pydsdl.VariableLengthArrayType):
            off_aligned = off_aligned and False if not isinstance(dt.element_type, pydsdl.CompositeType) and getattr(dt.element_type, "bit_length", 8) % 8 else off_aligned
    return (type(t).__name__, type(it).__name__, tuple(sorted(map(str, fs))))


def ser_values(r, t, n, storage=True):
    """Values to serialize: boundary-biased, in the storage range of C/C++ when storage=True, plus the maximal value."""
    vals = [("max", M.max_value(t)), ("min", M.min_value(t, 0)), ("min", M.min_value(t, 1))]
    for k in range(n):
        if storage:
            vals.append(("rand", M.gen_value(r, t, in_range=not (k % 2), maxlen=r.choice([2, 6, 40, 40, 700]))))
        else:   # Python: scalars in range, integer array elements over the range of their NumPy dtype
            vals.append(("rand", M.gen_value(r, t, in_range=True if k % 2 else "py", maxlen=r.choice([2, 6, 40, 40, 700]))))
    return vals


def hostile_values(r, t):
    """Values without a representation: over-long variable arrays, invalid union tags (C only for the raw tag)."""
    out = []
    it = M.inner(t)
    base = M.gen_value(r, t, in_range=True, maxlen=3)
    if isinstance(it, pydsdl.UnionType):
        out.append(("bad_tag", {"__raw_tag__": r.choice([len(it.fields), max(255, len(it.fields) + 7), len(it.fields) + 1])}))
    # an invalid tag in a union nested somewhere inside the value (a field, an array element, an option of the selected member)
    for _ in range(3):
        v = _with_nested_bad_tag(r, t, M.gen_value(r, t, in_range=True, maxlen=3))
        if v is not None:
            out.append(("bad_tag", v))
    fields = it.fields if isinstance(it, pydsdl.UnionType) else it.fields_except_padding
    for f in fields:
        dt = f.data_type
        if isinstance(dt, pydsdl.VariableLengthArrayType) and dt.capacity < 2000:
            v = dict(base) if not isinstance(it, pydsdl.UnionType) else {}
            e = M.gen_value(r, dt.element_type, in_range=True, maxlen=2)
            v[f.name] = [e] * (dt.capacity + r.choice([1, 1, 2]))
            out.append(("over_capacity", v))
    return out


def _with_nested_bad_tag(r, t, v, top=True):
    """A copy of value v of type t in which one union below the top level carries a tag that names no option; None if there is none."""
    it = M.inner(t)
    if isinstance(it, pydsdl.UnionType):
        if not top and r.random() < 0.6:
            return {"__raw_tag__": r.choice([len(it.fields), len(it.fields) + 1, max(255, len(it.fields) + 7)])}
        (k, x), = v.items()
        f = next(f for f in it.fields if f.name == k)
        sub = _bad_in(r, f.data_type, x)
        return None if sub is None else {k: sub}
    names = [f for f in it.fields_except_padding]
    r.shuffle(names)
    for f in names:
        sub = _bad_in(r, f.data_type, v[f.name])
        if sub is not None:
            out = dict(v)
            out[f.name] = sub
            return out
    return None


def _bad_in(r, dt, x):
    if isinstance(dt, pydsdl.CompositeType):
        return _with_nested_bad_tag(r, dt, x, top=False)
    if isinstance(dt, pydsdl.ArrayType) and isinstance(dt.element_type, pydsdl.CompositeType) and len(x):
        i = r.choice([0, len(x) - 1])
        sub = _with_nested_bad_tag(r, dt.element_type, x[i], top=False)
        if sub is not None:
            y = list(x)
            y[i] = sub
            return y
    return None


def des_inputs(r, t, n):
    """Byte strings to decode: valid encodings, truncations (stratified: always inside prefixes/tags/headers), garbage extensions,
    bit flips, random strings, the empty string."""
    out = [("empty", b"")]
    bound = bufbound(t)
    # every nested delimited object sent by "another version": longer than this version's extent, and empty; union options in turn
    for which in range(4):
        for mode in ("beyond", "empty"):
            try:
                v = M.min_value(t, which)
                b2 = M.encode_other_version(mode, t, v)
                if b2 != M.encode(t, v) and len(b2) <= bound + 4096:
                    out.append(("other_version_" + mode, b2))
            except (M.Invalid, KeyError, TypeError):
                pass
    for k in range(n):
        v = M.gen_value(r, t, in_range=True, maxlen=r.choice([1, 4, 12]))
        try:
            b = M.encode(t, v)
        except M.Invalid:
            continue
        out.append(("valid", b))
        try:
            b2 = M.encode_other_version(r, t, v)
            if b2 != b:
                out.append(("other_version", b2))
                if len(b2) > 1:
                    out.append(("other_version_truncated", b2[:r.randrange(1, len(b2))]))
        except M.Invalid:
            pass
        if b:
            cuts = {0, 1, len(b) - 1, len(b) // 2, r.randint(0, len(b))} | set(range(1, min(len(b), 6)))
            for c in sorted(cuts):
                if 0 <= c < len(b):
                    out.append(("truncated", b[:c]))
            out.append(("extended", b + bytes(r.getrandbits(8) for _ in range(r.choice([1, 3, 8])))))
            for _ in range(3):
                bb = bytearray(b)
                pos = r.choice([0, 0, 1, 2, 3, r.randrange(len(bb))]) % len(bb)
                bb[pos] ^= 1 << r.randrange(8)
                if r.random() < 0.3:
                    bb[r.randrange(len(bb))] = r.getrandbits(8)
                out.append(("flipped", bytes(bb)))
        out.append(("random", bytes(r.getrandbits(8) for _ in range(r.randint(0, min(bound + 8, 300))))))
        if k % 4 == 0:
            out.append(("ones", b"\xff" * r.randint(1, min(bound + 2, 200))))
            out.append(("zeros", b"\x00" * r.randint(1, min(bound + 2, 200))))
    return out


def cleanup_bases(bases):
    for b in bases:
        if hasattr(b, "close"):
            try:
                b.close()
            except Exception:
                pass
