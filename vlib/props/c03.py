"""C03 - round trip, cross-target and cross-option agreement of generated codecs (oracle-free).

Recorded histories of serialize / deserialize executions of several code bases generated from the same DSDL (C any/little/big,
asserts on/off, gcc vs clang, C++14/17/20/17-pmr, a user-supplied variable-array container, Python) are joined by (type, vector)
and compared pairwise: same value -> same bytes, same bytes -> same value / same acceptance; per code base:
des(ser(v)) == v for in-range v, ser(des(ser(v))) == ser(v), des(ser(des(b))) == des(b).  No reference model is consulted.
"""
import itertools
import os
import random
import shutil

from vlib import build, codecwork as W, common, refmodel as M

LEVEL = "exploration"
MANIFEST = {
    "category": "exploration",
    "technique": "metamorphic / differential runtime monitor over recorded codec executions of several generated code bases (no reference model): round-trip identities per code base, byte and value agreement across languages and options",
    "text": "The same value corpus (in-range for all targets, storage-range for C/C++) and byte-string corpus (valid, truncated, extended, "
            "mutated, random) are replayed through every code base of a namespace set; stage 2 feeds each code base its own outputs "
            "back. Every pair of code bases is compared on every vector, and the three round-trip identities are checked per code "
            "base. Code bases: C (endianness any/little/big, asserts on/off, clang-ASan/gcc), C++ (c++14, c++17, c++20, c++17-pmr, "
            "std::vector replaced by a harness-supplied container through variable_array_type_template), Python.",
    "note": "Float16 ties and NaN payloads are compared with the 'adjacent value' / NaN-class rule; error kinds are not compared, only acceptance; "
            "Python is left out of comparisons for values it refuses to hold. A code base that contributes < 80% of the vectors makes the run inconclusive.",
}
MANIFEST["text"] += " Python additionally performs the round trip on live objects: the decoder reads the serializer's own fragments without a copy and the result is serialized again. The C option enable_override_variable_array_capacity (without any override defined) is one of the option sets."
MANIFEST["text"] += ' The big-union set (more than 256 options) is compared across C, C++14 and Python.'

VLA_HPP = r'''
#pragma once
#include <vector>
#include <memory>
namespace verif {
/// A user container for variable-length arrays: same interface as std::vector, distinct type.
template <typename T, typename A = std::allocator<T>>
class Vla : public std::vector<T, A> {
public:
    using std::vector<T, A>::vector;
};
}  // namespace verif
'''


def specs_for(ctx, idx, wd):
    if idx == "bigunion":
        return W.base_specs(ctx.quick, idx)
    i = idx if isinstance(idx, int) else 0
    c = [dict(lang="c", name="c_any", flags=[]),
         dict(lang="c", name="c_little", flags=["--target-endianness", "little"]),
         dict(lang="c", name="c_big_noassert", flags=["--target-endianness", "big"], asserts=False),
         dict(lang="c", name="c_any_gcc", flags=[], kind="gcc"),
         dict(lang="c", name="c_ovr", flags=["--enable-override-variable-array-capacity"])]
    inc = os.path.join(wd, "userinc")
    os.makedirs(inc, exist_ok=True)
    with open(os.path.join(inc, "verif_vla.hpp"), "w") as f:
        f.write(VLA_HPP)
    vla = dict(lang="cpp", std="c++14", name="cpp14_uservla",
               config={"options": {"variable_array_type_include": '"verif_vla.hpp"', "variable_array_type_template": "verif::Vla<{TYPE}>"},
                       "_include_dir": os.path.join(inc, "x")})
    cpp = [dict(lang="cpp", std="c++14", name="cpp14"), dict(lang="cpp", std="c++17-pmr", name="cpp17pmr"),
           dict(lang="cpp", std="c++17", name="cpp17", flags=["--target-endianness", "little"]), dict(lang="cpp", std="c++20", name="cpp20", asserts=False), vla]
    py = [dict(lang="py", name="py")]
    if ctx.quick:
        return [c[0], c[1 + i % 3], cpp[0], cpp[1 + i % 3]] + ([vla, c[4]] if idx == "corpus" else []) + py
    return c + cpp + py


def clean_config(spec):
    if spec.get("config"):
        cfg = dict(spec["config"])
        return cfg
    return None


def eq_value(t, a, b):
    return M.same(t, a, b, lenient_float=False)


def has_nan(t, v):
    import math
    import pydsdl
    if isinstance(t, pydsdl.FloatType):
        return v != v
    if isinstance(t, pydsdl.ArrayType):
        return any(has_nan(t.element_type, e) for e in v) if not isinstance(t.element_type, pydsdl.IntegerType) else False
    if isinstance(t, pydsdl.CompositeType):
        it = M.inner(t)
        if isinstance(it, pydsdl.UnionType):
            (k, x), = v.items()
            f = next(f for f in it.fields if f.name == k)
            return has_nan(f.data_type, x)
        return any(has_nan(f.data_type, v[f.name]) for f in it.fields_except_padding)
    return False


def status(res):
    if res["st"] == "ok":
        return "ok"
    if res["st"] in ("err",):
        return "err"
    return res["st"]


def run_set(ctx, item, nvals, ninputs):
    idx, dsdl_dir, roots, parsed = item
    R = random.Random("c03/%s/%s" % (ctx.seed, idx))
    wd = ctx.sub("work_%s" % idx)
    specs = specs_for(ctx, idx, wd)
    for s in specs:
        if s.get("config") and "_include_dir" in s["config"]:
            pass
    bases = W.build_bases(wd, dsdl_dir, roots, parsed, specs)
    good = []
    for b in bases:
        if b.error:
            ctx.count("bases_failed[%s]" % b.name)
            ctx.extra.setdefault("base_failures", []).append(dict(set=idx, base=b.name, stage=b.error[0], detail=b.error[1][-500:]))
        else:
            good.append(b)
            ctx.count("bases_built")
    if len(good) < 2:
        ctx.inconclusive_because("set %s: fewer than two code bases built" % idx)
        return
    msgs = good[0].msgs
    # ---- corpora shared by all bases
    values, inputs = [], []
    for ti, t in enumerate(msgs):
        for k in range(nvals):
            mode = ["in-range", "py-storage", "storage"][k % 3]
            values.append((ti, mode, M.gen_value(R, t, in_range={"in-range": True, "py-storage": "py", "storage": False}[mode], maxlen=R.choice([2, 8, 30]))))
        values.append((ti, "in-range", M.max_value(t)))
        values.append((ti, "in-range", M.min_value(t, 0)))
        values.append((ti, "in-range", M.min_value(t, ti + 1)))
        for label, data in W.des_inputs(R, t, ninputs):
            inputs.append((ti, label, data))
    hist = {}
    witness = dict(set=idx, seed=ctx.seed)
    for b in good:
        vec1 = []
        for ti, kind, v in values:
            if b.lang == "py" and kind == "storage":
                vec1.append(None)
            else:
                vec1.append(dict(op="ser", ti=ti, value=v, bufsize=W.bufbound(msgs[ti]) + 4, pre=1 if b.lang != "py" else 0, objpre=1))
        vec1d = [dict(op="des", ti=ti, data=data, prior=1) for ti, label, data in inputs]
        run1 = [v for v in vec1 if v is not None] + vec1d
        res1, _, inc = b.run(run1)
        if inc:
            ctx.inconclusive_because("%s: %s" % (b.name, inc))
        it = iter(res1)
        ser1 = [next(it) if v is not None else None for v in vec1]
        des1 = [next(it) for _ in vec1d]
        # stage 2: feed own outputs back
        vec2, back = [], []
        for i, r in enumerate(ser1):
            if r is not None and r["st"] == "ok":
                vec2.append(dict(op="des", ti=values[i][0], data=r["bytes"], prior=2))
                back.append(("v", i))
        for j, r in enumerate(des1):
            if r["st"] == "ok":
                vec2.append(dict(op="ser", ti=inputs[j][0], value=r["value"], bufsize=W.bufbound(msgs[inputs[j][0]]) + 4, pre=3 if b.lang != "py" else 0, objpre=0))
                back.append(("b", j))
        res2, _, _ = b.run(vec2)
        desser, serdes = {}, {}
        for (k, i), r in zip(back, res2):
            (desser if k == "v" else serdes)[i] = r
        # stage 3: ser(des(ser(v))) and des(ser(des(b)))
        vec3, back3 = [], []
        for i, r in desser.items():
            if r["st"] == "ok":
                vec3.append(dict(op="ser", ti=values[i][0], value=r["value"], bufsize=W.bufbound(msgs[values[i][0]]) + 4, pre=2 if b.lang != "py" else 0, objpre=3))
                back3.append(("v", i))
        for j, r in serdes.items():
            if r["st"] == "ok":
                vec3.append(dict(op="des", ti=inputs[j][0], data=r["bytes"], prior=0))
                back3.append(("b", j))
        res3, _, _ = b.run(vec3)
        s3, d3 = {}, {}
        for (k, i), r in zip(back3, res3):
            (s3 if k == "v" else d3)[i] = r
        hist[b.name] = dict(ser1=ser1, des1=des1, desser=desser, serdes=serdes, s3=s3, d3=d3, lang=b.lang)
        total = len(run1)
        observed = sum(1 for r in res1 if r["st"] in ("ok", "err"))
        ctx.count("executions[%s]" % b.name, len(run1) + len(vec2) + len(vec3))
        if observed < 0.8 * total:
            ctx.inconclusive_because("%s contributed only %d of %d vectors" % (b.name, observed, total))
        # ---- per-base identities
        for i, (ti, kind, v) in enumerate(values):
            t = msgs[ti]
            r1 = ser1[i]
            if r1 is not None and r1["st"] == "crash":
                # a code base that aborts (armed assertion, sanitizer) where the others produce bytes disagrees with them
                ctx.count("evaluations")
                ctx.refute(None, "%s: serialization of a value of %s crashed: %s %s" % (b.name, t, r1.get("kind"), r1.get("frames", [])[:2]),
                           dict(witness, base=b.name, type=str(t), value=str(v)[:400], report=str(r1.get("text"))[-800:]))
                continue
            if r1 is None or r1["st"] != "ok" or i not in desser:
                continue
            r2 = desser[i]
            ctx.count("evaluations")
            ctx.count("roundtrip_checks")
            w = dict(witness, base=b.name, type=str(t), value=str(v)[:400], bytes=r1["bytes"].hex()[:300])
            if r1.get("live_hex") is not None and r2["st"] == "ok" and not has_nan(t, r2["value"]):
                # Python: the same relation on live objects, the decoder reading the serializer's own fragments without a copy
                ctx.count("live_roundtrips")
                if r1["live_hex"] != r1["bytes"].hex() or r1.get("live_stable") is False:
                    ctx.refute(None, "%s: ser(des(ser(v))) != ser(v) for %s when the objects are passed on without copying" % (b.name, t),
                               dict(w, again=str(r1["live_hex"])[:300], decoded_object_stable=r1.get("live_stable")))
                    continue
            if r2["st"] != "ok":
                ctx.refute(None, "%s: own serialization of %s is not accepted by own deserializer (%s)" % (b.name, t, r2["st"]), w)
                continue
            if kind == "in-range" and not eq_value(t, v, r2["value"]):
                ctx.refute(None, "%s: des(ser(v)) != v for an in-range value of %s" % (b.name, t), dict(w, back=str(r2["value"])[:400]))
                continue
            r3 = s3.get(i)
            if r3 is None or r3["st"] != "ok":
                ctx.refute(None, "%s: ser(des(ser(v))) failed for %s" % (b.name, t), w)
                continue
            if r3["bytes"] != r1["bytes"] and not has_nan(t, r2["value"]):
                ctx.refute(None, "%s: ser(des(ser(v))) != ser(v) for %s" % (b.name, t), dict(w, again=r3["bytes"].hex()[:300]))
                continue
            ctx.count("roundtrip_ok")
            ctx.distinct((b.name, W.features(t), kind))
        for j, (ti, label, data) in enumerate(inputs):
            t = msgs[ti]
            if des1[j]["st"] == "crash" or (j in serdes and serdes[j]["st"] == "crash"):
                ctx.count("evaluations")
                cr = des1[j] if des1[j]["st"] == "crash" else serdes[j]
                ctx.refute(None, "%s: %s of %s crashed: %s %s" % (b.name, "deserialization" if des1[j]["st"] == "crash" else "re-serialization of a decoded value", t,
                                                                   cr.get("kind"), cr.get("frames", [])[:2]),
                           dict(witness, base=b.name, type=str(t), data=bytes(data).hex()[:300], report=str(cr.get("text"))[-800:]))
                continue
            if des1[j]["st"] != "ok" or j not in serdes or serdes[j]["st"] != "ok" or j not in d3:
                continue
            ctx.count("evaluations")
            ctx.count("redecode_checks")
            if d3[j]["st"] != "ok" or not eq_value(t, des1[j]["value"], d3[j]["value"]):
                ctx.refute(None, "%s: des(ser(des(b))) != des(b) for %s" % (b.name, t),
                           dict(witness, base=b.name, type=str(t), data=bytes(data).hex()[:300], first=str(des1[j]["value"])[:300], second=str(d3[j].get("value"))[:300]))
            else:
                ctx.count("redecode_ok")
    # ---- cross-base agreement
    names = sorted(hist)
    for a, c in itertools.combinations(names, 2):
        ha, hc = hist[a], hist[c]
        for i, (ti, kind, v) in enumerate(values):
            ra, rc = ha["ser1"][i], hc["ser1"][i]
            if ra is None or rc is None or ra["st"] in ("crash", "missing", "exc") or rc["st"] in ("crash", "missing", "exc"):
                continue
            if "py" in (ha["lang"], hc["lang"]) and (ra["st"] != "ok" or rc["st"] != "ok"):
                continue
            t = msgs[ti]
            ctx.count("evaluations")
            ctx.count("cross_ser_comparisons")
            w = dict(witness, a=a, b=c, type=str(t), value=str(v)[:400])
            if status(ra) != status(rc):
                ctx.refute(None, "%s and %s disagree on accepting a value of %s for serialization (%s vs %s)" % (a, c, t, ra["st"], rc["st"]), w)
            elif ra["st"] == "ok" and ra["bytes"] != rc["bytes"]:
                if M.has_inexact_float(t, v) or has_nan(t, v):
                    ctx.count("cross_float_lenient")
                    continue
                ctx.refute(None, "%s and %s serialize the same value of %s to different bytes" % (a, c, t), dict(w, bytes_a=ra["bytes"].hex()[:300], bytes_b=rc["bytes"].hex()[:300]))
            else:
                ctx.count("cross_ser_agree")
                ctx.distinct(("x", a, c, W.features(t)))
        for j, (ti, label, data) in enumerate(inputs):
            ra, rc = ha["des1"][j], hc["des1"][j]
            if ra["st"] in ("crash", "missing", "exc", "baddump") or rc["st"] in ("crash", "missing", "exc", "baddump"):
                continue
            t = msgs[ti]
            ctx.count("evaluations")
            ctx.count("cross_des_comparisons")
            w = dict(witness, a=a, b=c, type=str(t), data=bytes(data).hex()[:300], input_kind=label)
            if status(ra) != status(rc):
                ctx.refute(None, "%s and %s disagree on the validity of a representation of %s (%s vs %s)" % (a, c, t, ra["st"], rc["st"]), w)
            elif ra["st"] == "ok" and not eq_value(t, ra["value"], rc["value"]):
                ctx.refute(None, "%s and %s decode the same bytes of %s to different values" % (a, c, t), dict(w, value_a=str(ra["value"])[:300], value_b=str(rc["value"])[:300]))
            else:
                ctx.count("cross_des_agree")
    W.cleanup_bases(bases)
    shutil.rmtree(wd, ignore_errors=True)


def run(ctx):
    ctx.rule = ("case = (type, value or byte string, code base or pair of code bases); distinct = (code base, type feature vector, value kind) round trips that held and "
                "(pair, feature vector) agreements")
    ok, why = build.sanitizer_canary(ctx.sub("canary"))
    if not ok:
        ctx.inconclusive_because("sanitizer canary: " + why)
        return
    sets = W.make_sets(ctx, ctx.pick(2, 20), "c03")
    for item in sets:
        run_set(ctx, item, ctx.pick(9, 40), ctx.pick(3, 16))
    run_set(ctx, W.big_union_set(ctx), ctx.pick(9, 40), ctx.pick(3, 16))
    ctx.sample({"relation": "ser(des(ser(v))) == ser(v)", "code bases": "c_any, c_little, cpp14, cpp17pmr, py", "joined by": "(type index, vector index)"})
    ctx.require("roundtrip_ok", 1000)
    ctx.require("redecode_ok", 500)
    ctx.require("cross_ser_agree", 2000)
    ctx.require("cross_des_agree", 2000)
    # a code base that could not be built (or lost most of its vectors) is a monitor that did not run, not a property that held
    for base_name, least in (("c_any", 6000), ("cpp14", 6000), ("py", 5000)):
        ctx.require("executions[%s]" % base_name, least)
