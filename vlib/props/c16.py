"""C16 - template resolution and environment contract.

Monitors: (A) the real DSDLTemplateLoader.type_to_template / get_source observed over subsets of ancestor-named templates
in a user directory and in a synthetic built-in package, on fresh and on warmed-up loaders (lookup histories), judged by a
reference resolver "nearest ancestor in the user set, else nearest ancestor in the built-in set"; (B) the same with the real
language packages through DSDLCodeGenerator.filter_type_to_template on real PyDSDL objects; (C) directory creation order /
file system variation; (D) instance tests vs isinstance; (E) attempted replacement of every existing filter/test/global.
"""
import collections
import inspect
import itertools
import os
import pathlib
import random
import shutil
import sys

from vlib import common

LEVEL = "exploration"
MANIFEST = {
    "category": "exploration",
    "technique": "runtime monitor on the real template loader/environment: reference resolver over (class chain, user set, built-in set), lookup histories cold vs warm, identity check of every environment name after attempted additions",
    "text": "Real DSDLTemplateLoader objects are created over generated user directories and a synthetic built-in package (all "
            "subsets of a 6-name ancestor universe in the thorough tier, random subsets of 12 names in quick) and over the real "
            "language packages; every class of the PyDSDL hierarchy is looked up on cold loaders and after random lookup "
            "histories, the returned template is read through get_source and compared with the documented two-phase nearest-"
            "ancestor rule; instance tests are compared with isinstance on every object of parsed namespaces; every existing "
            "filter/test/global name is offered as a user addition and must raise or leave the bound object unchanged."
            " User and built-in directories also hold look-alikes of class names (Class.old.j2, Class.v2.j2, xClass.j2, lower-case spellings) that must never be chosen.",
    "note": "Reference rule: nearest ancestor in the user set, else nearest in the built-in set (documented file-system-first fallback). "
            "allow_filter_test_or_use_query_overwrite=True is the documented opt-out and not judged.",
}
MANIFEST["text"] += ' Several user template directories (2-3, both search orders) are resolved against the union-of-directories reference.'


def hierarchy():
    import pydsdl
    import nunavut
    out = []
    for n, c in inspect.getmembers(pydsdl, inspect.isclass):
        if issubclass(c, (pydsdl.SerializableType, pydsdl.Attribute)) or c is pydsdl.Any:
            out.append(c)
    out.append(nunavut.Namespace)
    return out


def chain(cls):
    """Breadth-first ancestor order as the documentation describes (single inheritance in PyDSDL: a chain)."""
    out, q, seen = [], collections.deque([cls]), set()
    while q:
        c = q.popleft()
        if c in seen or c is object:
            continue
        seen.add(c)
        out.append(c.__name__)
        for b in c.__bases__:
            q.append(b)
    return [n for n in out if n not in ("ABC", "object")]


def reference(cls, user, builtin):
    for n in chain(cls):
        if n in user:
            return ("user", n)
    for n in chain(cls):
        if n in builtin:
            return ("builtin", n)
    return None


UNIVERSE = ["StructureType", "UnionType", "CompositeType", "SerializableType", "Any", "DelimitedType", "ServiceType",
            "PrimitiveType", "IntegerType", "ArrayType", "Attribute", "Field",
            # names of which another class name is a suffix (IntegerType / UnsignedIntegerType, ArrayType / FixedLengthArrayType, Field / PaddingField)
            "UnsignedIntegerType", "SignedIntegerType", "VariableLengthArrayType", "FixedLengthArrayType", "PaddingField", "ArithmeticType",
            "FloatType", "BooleanType", "VoidType", "Constant", "UTF8Type", "ByteType", "Namespace"]


def write_set(d, names, tag, order=None):
    shutil.rmtree(d, ignore_errors=True)
    os.makedirs(d)
    names = list(names)
    if order:
        order.shuffle(names)
    for n in names:
        with open(os.path.join(d, n + ".j2"), "w") as f:
            f.write("%s:%s" % (tag, n))
    # decoys that must never be chosen
    with open(os.path.join(d, "README.txt"), "w") as f:
        f.write("decoy")
    with open(os.path.join(d, "helper.j2"), "w") as f:
        f.write("%s:helper" % tag)
    # look-alikes of class names (left-over copies, fragments, other case): only the exact "<Class>.j2" names a class
    rr = random.Random(repr(sorted(names)))          # the same set of names always gets the same look-alikes
    for c in rr.sample(UNIVERSE, 4) + sorted(names)[:2]:
        for pat in rr.sample(["%s.old.j2", "%s.inc.j2", "%s.v2.j2", "%sx.j2", "x%s.j2", "%s.j2.bak", "%s.txt", "%s.j2.j2", "_%s.j2"], 3):
            fn = pat % c
            if fn[:-3] not in UNIVERSE:
                with open(os.path.join(d, fn), "w") as f:
                    f.write("DECOY:%s" % fn)
        low = c.lower() + ".j2"
        if low[:-3] not in names and not os.path.exists(os.path.join(d, low)):
            with open(os.path.join(d, low), "w") as f:
                f.write("DECOY:%s" % low)


def observe(loader, env, cls):
    """What the real loader resolves for cls: (origin, name) read back from the template source it would load."""
    p = loader.type_to_template(cls)
    if p is None:
        return None
    src, filename, _ = loader.get_source(env, p.name if isinstance(p, pathlib.Path) else str(p))
    origin, _, name = src.partition(":")
    return (origin.lower(), name), str(p)


def part_a(ctx, pkgroot):
    from nunavut.jinja.loaders import DSDLTemplateLoader
    from nunavut._utilities import ResourceSearchPolicy
    from nunavut.jinja.jinja2 import Environment
    R = random.Random("c16a/%s" % ctx.seed)
    classes = hierarchy()
    env = Environment()
    d = ctx.sub("a")
    userdir = os.path.join(d, "user")
    pkgt = os.path.join(pkgroot, "vpkg16", "templates")
    if ctx.quick:
        pairs = []
        for _ in range(140):
            pairs.append((frozenset(R.sample(UNIVERSE, R.randint(0, 5))), frozenset(R.sample(UNIVERSE, R.randint(0, 6)))))
        pairs += [(frozenset(), frozenset(["StructureType", "CompositeType"])), (frozenset(["CompositeType"]), frozenset(["StructureType"]))]
    else:
        small = UNIVERSE[:6]
        subsets = [frozenset(c) for n in range(len(small) + 1) for c in itertools.combinations(small, n)]
        pairs = [(u, b) for u in subsets for b in subsets]
        for _ in range(600):
            pairs.append((frozenset(R.sample(UNIVERSE, R.randint(0, 6))), frozenset(R.sample(UNIVERSE, R.randint(0, 8)))))
    for user, builtin in pairs:
        write_set(userdir, user, "USER", R)
        write_set(pkgt, builtin, "BUILTIN", R)
        open(os.path.join(pkgt, "__init__.py"), "w").close()
        for policy in (ResourceSearchPolicy.FIND_ALL, ResourceSearchPolicy.FIND_FIRST):
            for use_user in ((True, False) if policy == ResourceSearchPolicy.FIND_ALL else (True,)):
                eff_user = user if use_user else frozenset()
                eff_builtin = builtin if (policy == ResourceSearchPolicy.FIND_ALL or not use_user) else frozenset()

                def mk():
                    return DSDLTemplateLoader(templates_dirs=[pathlib.Path(userdir)] if use_user else None,
                                              package_name_for_templates="vpkg16", search_policy=policy)
                # history: a random lookup sequence on one loader; every answer judged, cold answers compared with warm
                for rep in range(ctx.pick(2, 3)):
                    loader = mk()
                    seq = [R.choice(classes) for _ in range(R.randint(3, 14))]
                    for i, cls in enumerate(seq):
                        ctx.count("evaluations")
                        ctx.count("lookups")
                        try:
                            got = observe(loader, env, cls)
                        except Exception as e:
                            ctx.refute(None, "lookup raised %r" % e, dict(cls=cls.__name__, user=sorted(user), builtin=sorted(builtin)))
                            continue
                        exp = reference(cls, eff_user, eff_builtin)
                        g = got[0] if got else None
                        if g != exp:
                            cold = observe(mk(), env, cls)
                            coldg = cold[0] if cold else None
                            mech = None
                            if coldg == exp and g != exp:
                                mech = "lookup-cache-shared-between-user-and-builtin-phase"
                            ctx.count("refuted[%s]" % mech)
                            ctx.refute(mech, "template for %s resolved to %s, reference %s (cold loader: %s)" % (cls.__name__, g, exp, coldg),
                                       dict(cls=cls.__name__, chain=chain(cls), user=sorted(user), builtin=sorted(builtin),
                                            policy=policy.name, user_dir=use_user, history=[c.__name__ for c in seq[:i]], got=g, expected=exp, cold=coldg))
                        else:
                            ctx.count("lookups_agree")
                            if i > 0:
                                ctx.count("warm_lookups_agree")
                    ctx.distinct(("a", tuple(sorted(user)), tuple(sorted(builtin)), policy.name, use_user, tuple(c.__name__ for c in seq)))
    ctx.sample({"user_templates": sorted(user), "builtin_templates": sorted(builtin), "class": cls.__name__, "chain": chain(cls), "resolved": exp})


def part_a_multi(ctx, pkgroot):
    """Several user template directories: the nearest class over the UNION of the directories decides (a directory's position never
    beats the distance in the class chain); a name present in several directories is taken from the first of them."""
    from nunavut.jinja.loaders import DSDLTemplateLoader
    from nunavut.jinja.jinja2 import Environment
    R = random.Random("c16am/%s" % ctx.seed)
    classes = hierarchy()
    env = Environment()
    d = ctx.sub("am")
    for k in range(ctx.pick(40, 400)):
        ndirs = R.choice([2, 2, 3])
        sets = [frozenset(R.sample(UNIVERSE, R.randint(0, 4))) for _ in range(ndirs)]
        if k % 4 == 0:   # a farther ancestor in an earlier directory, the nearer class in a later one
            sets[0] = sets[0] | {R.choice(["CompositeType", "SerializableType", "Any"])}
            sets[-1] = sets[-1] | {R.choice(["StructureType", "UnionType", "ServiceType"])}
        dirs = []
        for i, names in enumerate(sets):
            dd = os.path.join(d, "k%d_d%d" % (k, i))
            write_set(dd, names, "USER%d" % i, R)
            dirs.append(dd)
        for order in (list(range(ndirs)), list(reversed(range(ndirs)))):
            loader = DSDLTemplateLoader(templates_dirs=[pathlib.Path(dirs[i]) for i in order], package_name_for_templates=None)
            union = frozenset().union(*sets)
            for cls in R.sample(classes, min(len(classes), 12)):
                ctx.count("evaluations")
                ctx.count("multi_directory_lookups")
                exp = reference(cls, union, frozenset())
                if exp is not None:
                    first = next(i for i in order if exp[1] in sets[i])
                    exp = ("user%d" % first, exp[1])
                try:
                    got = observe(loader, env, cls)
                except Exception as e:
                    ctx.refute(None, "lookup raised %r" % e, dict(cls=cls.__name__, dirs=[sorted(x) for x in sets], order=order))
                    continue
                g = got[0] if got else None
                if g != exp:
                    ctx.refute(None, "with several template directories %s resolved to %s, reference %s" % (cls.__name__, g, exp),
                               dict(cls=cls.__name__, chain=chain(cls), directories=[sorted(x) for x in sets], search_order=order, got=g, expected=exp))
                else:
                    ctx.count("multi_directory_lookups_agree")
        ctx.distinct(("am", tuple(tuple(sorted(x)) for x in sets)))
        shutil.rmtree(os.path.join(d), ignore_errors=True)
        os.makedirs(d, exist_ok=True)


def part_b(ctx):
    """Real language packages + user directories, through the real generator's filter on real PyDSDL objects."""
    import pydsdl
    import nunavut
    import nunavut.jinja
    from nunavut.lang import LanguageContextBuilder
    from vlib import dsdlgen
    R = random.Random("c16b/%s" % ctx.seed)
    d = ctx.sub("b")
    roots = dsdlgen.write_corpus(os.path.join(d, "dsdl"), which=["cov"])
    types = pydsdl.read_namespace(os.path.join(d, "dsdl", "cov"), [], allow_unregulated_fixed_port_id=True)
    objs = []
    for t in types:
        objs.append(t)
        parts = [t.request_type, t.response_type] if isinstance(t, pydsdl.ServiceType) else [t]
        for p in parts:
            objs.append(p)
            inner = p.inner_type if isinstance(p, pydsdl.DelimitedType) else p
            objs.append(inner)
            for a in inner.attributes:
                objs.append(a)
                objs.append(a.data_type)
                if isinstance(a.data_type, pydsdl.ArrayType):
                    objs.append(a.data_type.element_type)
    for lang in ["c", "py"] if ctx.quick else ["c", "cpp", "py", "html"]:
        lctx = LanguageContextBuilder(include_experimental_languages=True).set_target_language(lang).create()
        builtin = frozenset(p[:-3] for p in os.listdir(os.path.join(common.REPO, "src/nunavut/lang/%s/templates" % lang)) if p.endswith(".j2"))
        for k in range(ctx.pick(6, 40)):
            user = frozenset(R.sample(UNIVERSE, R.randint(0, 4))) if k else frozenset()
            userdir = os.path.join(d, "user_%s_%d" % (lang, k))
            write_set(userdir, user, "USER", R)
            ns = nunavut.build_namespace_tree(types, os.path.join(d, "dsdl", "cov"), os.path.join(d, "out"), lctx)
            gen = nunavut.jinja.DSDLCodeGenerator(ns, templates_dir=pathlib.Path(userdir) if (user or k % 2) else None)
            eff_user = user if (user or k % 2) else frozenset()
            # DSDLCodeGenerator uses FIND_FIRST: a user directory *replaces* the built-in set for type templates
            eff_builtin = frozenset() if (user or k % 2) else builtin
            for o in R.sample(objs, min(len(objs), ctx.pick(60, 400))) + [ns]:
                ctx.count("evaluations")
                ctx.count("filter_lookups")
                exp = reference(type(o), eff_user, eff_builtin)
                try:
                    name = gen.filter_type_to_template(o)
                    src, filename, _ = gen.dsdl_loader.get_source(gen._env, name)
                    got = ("user" if src.startswith("USER:") else "builtin", name[:-3])
                except RuntimeError:
                    got = None
                if got != exp:
                    ctx.refute(None, "generator resolved %s for a %s, reference %s" % (got, type(o).__name__, exp),
                               dict(lang=lang, cls=type(o).__name__, user=sorted(eff_user), builtin=sorted(eff_builtin), got=got, expected=exp))
                else:
                    ctx.count("filter_lookups_agree")
            ctx.distinct(("b", lang, tuple(sorted(user))))
    return types, objs


def part_c(ctx, pkgroot):
    """Directory enumeration order: same template sets created in different orders on ext4 and tmpfs resolve alike."""
    from nunavut.jinja.loaders import DSDLTemplateLoader
    from nunavut.jinja.jinja2 import Environment
    R = random.Random("c16c/%s" % ctx.seed)
    env = Environment()
    classes = hierarchy()
    bases = [ctx.sub("c")]
    if os.path.isdir("/dev/shm") and os.access("/dev/shm", os.W_OK):
        import tempfile
        shm = tempfile.mkdtemp(prefix="nvverif_c16_", dir="/dev/shm")
        import atexit
        atexit.register(shutil.rmtree, shm, True)
        bases.append(shm)
    for k in range(ctx.pick(25, 300)):
        user = R.sample(UNIVERSE, R.randint(1, 6))
        answers = []
        for base in bases:
            for order in range(2):
                dd = os.path.join(base, "u%d_%d" % (k, order))
                write_set(dd, user, "USER", R)
                loader = DSDLTemplateLoader(templates_dirs=[pathlib.Path(dd)], package_name_for_templates=None)
                ans = tuple((observe(loader, env, c) or (None,))[0] for c in classes)
                listing = tuple(sorted(loader.list_templates()))
                answers.append((ans, listing))
                ctx.count("evaluations")
                ctx.count("enumeration_variants")
        if len(set(answers)) != 1:
            ctx.refute(None, "template resolution depends on directory creation order / file system", dict(user=user))
        ctx.distinct(("c", tuple(sorted(user))))
    ctx.extra["filesystems_compared"] = len(bases)


def part_d(ctx, objs):
    """Instance tests: every class has Name + alias and they agree with isinstance(value or attribute.data_type)."""
    import pydsdl
    import nunavut.jinja
    from nunavut.jinja.jinja2 import DictLoader
    tests = dict(nunavut.jinja.DSDLCodeGenerator._create_all_dsdl_tests())
    classes = [c for c in hierarchy() if issubclass(c, (pydsdl.SerializableType, pydsdl.Attribute))]
    for c in classes:
        low = c.__name__.lower()
        alias = low[:-4] if (len(low) > 4 and low.endswith("type")) else low[:-5] if (len(low) > 5 and low.endswith("field")) else low
        for name in (c.__name__, alias):
            ctx.count("evaluations")
            if name not in tests:
                ctx.refute(None, "no instance test named %r for class %s" % (name, c.__name__), dict(cls=c.__name__, name=name))
                continue
            f = tests[name]
            for o in objs:
                ctx.count("test_evaluations")
                # "class membership of the value or of an attribute's data type": both readings are accepted -
                # (1) attribute -> its data type decides, (2) the value itself or its data type is an instance
                target = o.data_type if isinstance(o, pydsdl.Attribute) else o
                exp = {isinstance(target, c), isinstance(o, c) or isinstance(target, c)}
                got = bool(f(o))
                if got not in exp:
                    ctx.refute(None, "test %r says %s for a %s (isinstance: %s)" % (name, got, type(o).__name__, sorted(exp)),
                               dict(test=name, cls=c.__name__, obj=type(o).__name__, obj_str=str(o)[:80]))
                    break
            ctx.distinct(("d", name))
    return classes


def part_e(ctx, types, d):
    """User additions can never silently replace an existing name."""
    import nunavut
    import nunavut.jinja
    from nunavut.lang import LanguageContextBuilder
    R = random.Random("c16e/%s" % ctx.seed)
    for lang in ["c", "py"] if ctx.quick else ["c", "cpp", "py", "html"]:
        lctx = LanguageContextBuilder(include_experimental_languages=True).set_target_language(lang).create()
        ns = nunavut.build_namespace_tree(types, os.path.join(d, "dsdl", "cov"), os.path.join(d, "out"), lctx)
        base = nunavut.jinja.DSDLCodeGenerator(ns)
        env0 = base._env
        cands = {"filters": dict(env0.filters), "tests": dict(env0.tests), "globals": dict(env0.globals)}
        for r in list(env0.RESERVED_GLOBAL_NAMESPACES) + list(env0.RESERVED_GLOBAL_NAMES):
            cands["globals"].setdefault(r, env0.globals.get(r))
        for kind, names in cands.items():
            names = sorted(names)
            if ctx.quick and len(names) > 45:
                keep = set(R.sample(names, 45)) | {n for n in names if n in ("range", "dict", "namespace", "id", "now_utc", "ln", "options",
                                                                            "type_to_template", "yamlfy", "StructureType", "structure", "upper", "defined")}
                names = sorted(keep)
            for name in names:
                ctx.count("evaluations")
                ctx.count("addition_attempts")
                marker = (lambda *a, **k: "USER-SUPPLIED")
                kw = {"additional_" + kind: {name: marker}}
                try:
                    g = nunavut.jinja.DSDLCodeGenerator(ns, **kw)
                except Exception as e:
                    ctx.count("addition_refused[%s]" % type(e).__name__)
                    ctx.distinct(("e", lang, kind, name))
                    continue
                now = getattr(g._env, kind).get(name)
                if now is marker:
                    mech = "additional-global-replaces-jinja-builtin" if (kind == "globals") else None
                    ctx.refute(mech, "user-supplied %s %r silently replaced the existing %r" % (kind[:-1], name, type(cands[kind][name]).__name__),
                               dict(lang=lang, kind=kind, name=name))
                else:
                    ctx.count("addition_ignored_builtin_kept")
                ctx.distinct(("e", lang, kind, name))
        # a fresh, unused name must of course be accepted (the check must not be passed by refusing everything)
        g = nunavut.jinja.DSDLCodeGenerator(ns, additional_filters={"verif_new_filter": len}, additional_tests={"verif_new_test": bool},
                                            additional_globals={"verif_new_global": 1})
        ctx.count("fresh_names_accepted", int("verif_new_filter" in g._env.filters and "verif_new_test" in g._env.tests and "verif_new_global" in g._env.globals))


def run(ctx):
    ctx.rule = ("case = (class, user template set, built-in template set, search policy, lookup history) / (instance test, object) / "
                "(kind, existing name) addition attempt; distinct = distinct configurations+histories, test names, and attempted names")
    pkgroot = ctx.sub("pkg")
    os.makedirs(os.path.join(pkgroot, "vpkg16", "templates"))
    open(os.path.join(pkgroot, "vpkg16", "__init__.py"), "w").close()
    open(os.path.join(pkgroot, "vpkg16", "templates", "__init__.py"), "w").close()
    sys.path.insert(0, pkgroot)
    part_a(ctx, pkgroot)
    part_a_multi(ctx, pkgroot)
    types, objs = part_b(ctx)
    part_c(ctx, pkgroot)
    part_d(ctx, objs)
    part_e(ctx, types, os.path.join(ctx.scratch, "b"))
    ctx.require("lookups_agree", 2000)
    ctx.require("warm_lookups_agree", 1000)
    ctx.require("filter_lookups_agree", 300)
    ctx.require("test_evaluations", 5000)
    ctx.require("addition_attempts", 100)
    ctx.require("fresh_names_accepted", 2)
    ctx.require("enumeration_variants", 50)
    ctx.require("multi_directory_lookups_agree", 300)
