/* C14 driver for the generated C support header.  Naive bit-by-bit reference; exact-size heap buffers (ASan red zones adjacent).
 * usage: driver <mode> <shard> <nshards> <seed> <thorough>    prints "COUNT <name> <n>" and "MISMATCH ..." lines. */
#include <stdio.h>
#include <stdlib.h>
#include <string.h>
#include <stdint.h>
#include <stdbool.h>
#include <math.h>
#ifndef VERIF_CPP_SHIM
#include "nunavut/support/serialization.h"
#endif

static unsigned long long n_calls = 0, n_mismatch = 0, n_toosmall = 0;
static uint32_t rng = 2463534242u;
static uint32_t rnd(void) { rng ^= rng << 13; rng ^= rng >> 17; rng ^= rng << 5; return rng; }
static uint64_t rnd64(void) { return ((uint64_t) rnd() << 32) | rnd(); }
static int getbit(const uint8_t* b, size_t nbytes, size_t i) { return (i / 8 < nbytes) ? ((b[i / 8] >> (i % 8)) & 1) : 0; }
static void fill(uint8_t* b, size_t n, int pat) { for (size_t i = 0; i < n; ++i) b[i] = (pat == 0) ? 0x00 : (pat == 1) ? 0xFF : (uint8_t) rnd(); }
static uint8_t* xalloc(size_t n) { uint8_t* p = (uint8_t*) malloc(n ? n : 1); if (!p) abort(); return p; }
#define MISMATCH(...) do { ++n_mismatch; if (n_mismatch <= 25) { printf("MISMATCH "); printf(__VA_ARGS__); printf("\n"); } } while (0)

static void test_copy_bits(unsigned shard, unsigned nshards, int thorough)
{
    const size_t maxoff = 23, maxlen = thorough ? 80 : 40;
    for (size_t so = shard; so <= maxoff; so += nshards)
    for (size_t dof = 0; dof <= maxoff; ++dof)
    for (size_t len = 0; len <= maxlen; ++len)
    for (int pat = 0; pat < 3; ++pat) {
        const size_t sn = (so + len + 7) / 8, dn = (dof + len + 7) / 8;
        uint8_t* src = xalloc(sn); uint8_t* dst = xalloc(dn); uint8_t* before = xalloc(dn);
        fill(src, sn, 2); fill(dst, dn, pat); memcpy(before, dst, dn);
        nunavutCopyBits(dst, dof, len, src, so); ++n_calls;
        for (size_t i = 0; i < dn * 8; ++i) {
            const int want = (i >= dof && i < dof + len) ? getbit(src, sn, so + (i - dof)) : getbit(before, dn, i);
            if (getbit(dst, dn, i) != want) { MISMATCH("nunavutCopyBits src_off=%zu dst_off=%zu len=%zu prefill=%d: bit %zu is %d, expected %d (%s)", so, dof, len, pat, i, getbit(dst, dn, i), want, (i >= dof && i < dof + len) ? "addressed" : "not addressed"); break; }
        }
        free(src); free(dst); free(before);
    }
}

static void test_get_bits(unsigned shard, unsigned nshards, int thorough)
{
    const size_t maxlen = thorough ? 80 : 40;
    for (size_t bs = shard; bs <= 12; bs += nshards)
    for (size_t off = 0; off <= 23 + 8 * 12; off += (off < 24 ? 1 : 7))
    for (size_t len = 0; len <= maxlen; ++len) {
        const size_t on = (len + 7) / 8;
        uint8_t* buf = xalloc(bs); uint8_t* out = xalloc(on);
        fill(buf, bs, 2); fill(out, on, 1);
        nunavutGetBits(out, buf, bs, off, len); ++n_calls;
        for (size_t i = 0; i < len; ++i) {
            if (getbit(out, on, i) != getbit(buf, bs, off + i)) { MISMATCH("nunavutGetBits buf_size=%zu off=%zu len=%zu: output bit %zu is %d, expected %d%s", bs, off, len, i, getbit(out, on, i), getbit(buf, bs, off + i), (off + i >= bs * 8) ? " (beyond the buffer: zero)" : ""); break; }
        }
        free(buf); free(out);
    }
}

static void test_set_get_int(unsigned shard, unsigned nshards, int thorough)
{
    for (unsigned len = shard; len <= 64; len += nshards)
    for (size_t off = 0; off <= 23; ++off)
    for (int k = 0; k < (thorough ? 40 : 12); ++k)
    for (int pat = 0; pat < 3; ++pat) {
        uint64_t v = (k == 0) ? 0 : (k == 1) ? UINT64_MAX : (k == 2) ? 1 : (k == 3) ? (len ? (1ULL << (len - 1)) : 0) : (k == 4) ? (len ? (1ULL << (len - 1)) - 1 : 0) : rnd64();
        const size_t need = (off + len + 7) / 8;
        for (int small = 0; small < 3; ++small) {
            /* small = 0: exact size, 1: one byte short (too small unless len == 0 ...), 2: generous */
            size_t bs = (small == 0) ? need : (small == 1) ? (need ? need - 1 : 0) : need + 3;
            uint8_t* buf = xalloc(bs); uint8_t* before = xalloc(bs);
            fill(buf, bs, pat); memcpy(before, buf, bs);
            const int8_t rc = (k % 2) ? nunavutSetIxx(buf, bs, off, (int64_t) v, (uint8_t) len) : nunavutSetUxx(buf, bs, off, v, (uint8_t) len); ++n_calls;
            const bool fits = (bs * 8) >= (off + len);
            if (len == 0) { if (memcmp(buf, before, bs) != 0) MISMATCH("nunavutSet%cxx off=%zu len=0: buffer modified", (k % 2) ? 'I' : 'U', off); }
            else if (!fits) {
                ++n_toosmall;
                if (rc >= 0) MISMATCH("nunavutSet%cxx off=%zu len=%u buf_size=%zu: success reported for a too small buffer", (k % 2) ? 'I' : 'U', off, len, bs);
                else if (memcmp(buf, before, bs) != 0) MISMATCH("nunavutSet%cxx off=%zu len=%u buf_size=%zu: buffer modified although too small", (k % 2) ? 'I' : 'U', off, len, bs);
            } else {
                if (rc < 0) { MISMATCH("nunavutSet%cxx off=%zu len=%u buf_size=%zu: error %d for a sufficient buffer", (k % 2) ? 'I' : 'U', off, len, bs, rc); }
                else for (size_t i = 0; i < bs * 8; ++i) {
                    const int want = (i >= off && i < off + len) ? (int) ((v >> (i - off)) & 1) : getbit(before, bs, i);
                    if (getbit(buf, bs, i) != want) { MISMATCH("nunavutSet%cxx off=%zu len=%u value=%llx prefill=%d: bit %zu is %d, expected %d (%s)", (k % 2) ? 'I' : 'U', off, len, (unsigned long long) v, pat, i, getbit(buf, bs, i), want, (i >= off && i < off + len) ? "addressed" : "not addressed"); break; }
                }
                /* read back through every getter, with zero extension from a truncated copy */
                for (size_t rs = 0; rs <= bs; rs += (rs + 2 < bs ? (bs > 6 ? 3 : 1) : 1)) {
                    uint8_t* rb = xalloc(rs); memcpy(rb, buf, rs);
                    uint64_t wantu = 0; for (unsigned i = 0; i < len; ++i) wantu |= (uint64_t) getbit(rb, rs, off + i) << i;
                    const unsigned widths[4] = {8, 16, 32, 64};
                    for (int w = 0; w < 4; ++w) {
                        const unsigned N = widths[w], eff = len < N ? len : N;
                        const uint64_t mu = (eff == 64) ? UINT64_MAX : ((1ULL << eff) - 1);
                        uint64_t gu = (w == 0) ? nunavutGetU8(rb, rs, off, (uint8_t) len) : (w == 1) ? nunavutGetU16(rb, rs, off, (uint8_t) len) : (w == 2) ? nunavutGetU32(rb, rs, off, (uint8_t) len) : nunavutGetU64(rb, rs, off, (uint8_t) len);
                        ++n_calls;
                        if (gu != (wantu & mu)) MISMATCH("nunavutGetU%u buf_size=%zu off=%zu len=%u: got %llx, expected %llx", N, rs, off, len, (unsigned long long) gu, (unsigned long long) (wantu & mu));
                        int64_t gi = (w == 0) ? nunavutGetI8(rb, rs, off, (uint8_t) len) : (w == 1) ? nunavutGetI16(rb, rs, off, (uint8_t) len) : (w == 2) ? nunavutGetI32(rb, rs, off, (uint8_t) len) : nunavutGetI64(rb, rs, off, (uint8_t) len);
                        ++n_calls;
                        int64_t wanti = (int64_t) (wantu & mu);
                        if (eff > 0 && eff < 64 && ((wantu >> (eff - 1)) & 1)) wanti = (int64_t) ((wantu & mu) | ~mu);
                        if (eff == 64) wanti = (int64_t) wantu;
                        if (len <= N && gi != wanti) MISMATCH("nunavutGetI%u buf_size=%zu off=%zu len=%u: got %lld, expected %lld (sign extension from bit %u after zero extension)", N, rs, off, len, (long long) gi, (long long) wanti, eff ? eff - 1 : 0);
                    }
                    if (len >= 1) { ++n_calls; if ((int) nunavutGetBit(rb, rs, off) != getbit(rb, rs, off)) MISMATCH("nunavutGetBit buf_size=%zu off=%zu", rs, off); }
                    free(rb);
                }
            }
            free(buf); free(before);
        }
    }
    /* nunavutSetBit */
    for (size_t bs = 0; bs <= 4; ++bs) for (size_t off = 0; off < 40; ++off) for (int val = 0; val < 2; ++val) for (int pat = 0; pat < 3; ++pat) {
        uint8_t* buf = xalloc(bs); uint8_t* before = xalloc(bs); fill(buf, bs, pat); memcpy(before, buf, bs);
        const int8_t rc = nunavutSetBit(buf, bs, off, val != 0); ++n_calls;
        if (off >= bs * 8) { ++n_toosmall; if (rc >= 0 || memcmp(buf, before, bs)) MISMATCH("nunavutSetBit buf_size=%zu off=%zu: too small buffer not refused cleanly", bs, off); }
        else for (size_t i = 0; i < bs * 8; ++i) { const int want = (i == off) ? val : getbit(before, bs, i); if (getbit(buf, bs, i) != want) { MISMATCH("nunavutSetBit buf_size=%zu off=%zu value=%d: bit %zu wrong", bs, off, val, i); break; } }
        free(buf); free(before);
    }
}

static int half_class(uint16_t h) { return ((h & 0x7C00) == 0x7C00) ? ((h & 0x3FF) ? 2 : 1) : 0; }   /* 0 finite, 1 inf, 2 nan */
static double half_value(uint16_t h) {
    const int e = (h >> 10) & 0x1F; const int m = h & 0x3FF; double v;
    if (e == 0) v = ldexp((double) m, -24); else v = ldexp((double) (m | 0x400), e - 25);
    return (h & 0x8000) ? -v : v;
}

static void test_float16(unsigned shard, unsigned nshards, int thorough)
{
    /* all 65536 halves: unpack exact, pack(unpack(h)) == h */
    if (shard == 0) for (uint32_t h = 0; h < 65536; ++h) {
        const float f = nunavutFloat16Unpack((uint16_t) h); ++n_calls;
        const int cls = half_class((uint16_t) h);
        if (cls == 2) { if (!(f != f)) MISMATCH("nunavutFloat16Unpack(0x%04x): NaN expected", h); }
        else if (cls == 1) { if (!isinf(f) || ((h & 0x8000) != 0) != (f < 0)) MISMATCH("nunavutFloat16Unpack(0x%04x): infinity expected", h); }
        else if ((double) f != half_value((uint16_t) h) || (signbit(f) != 0) != ((h & 0x8000) != 0)) MISMATCH("nunavutFloat16Unpack(0x%04x) = %a, expected %a", h, (double) f, half_value((uint16_t) h));
        const uint16_t back = nunavutFloat16Pack(f); ++n_calls;
        if (cls == 2) { if (half_class(back) != 2) MISMATCH("nunavutFloat16Pack(Unpack(0x%04x)) = 0x%04x: NaN lost", h, back); }
        else if (back != h) MISMATCH("nunavutFloat16Pack(Unpack(0x%04x)) = 0x%04x: does not round-trip", h, back);
    }
    /* float32 -> half: faithful (nearest or adjacent), monotone, overflow to infinity, classes preserved */
    const uint64_t total = thorough ? (1ULL << 32) : (1ULL << 22);
    const uint64_t per = total / nshards;
    uint16_t prev_h = 0; float prev_f = 0; int have_prev = 0;
    for (uint64_t k = shard * per; k < (shard + 1) * per; ++k) {
        uint32_t bits = thorough ? (uint32_t) k : (uint32_t) (k * 1021u + (k >> 3));   /* quick: stride through the space */
        if (!thorough && (k & 3) == 0) bits = (rnd() & 0x007FFFFFu) | (((rnd() % 40) + 100) << 23) | (rnd() & 0x80000000u);   /* around the half range */
        float f; memcpy(&f, &bits, 4);
        const uint16_t h = nunavutFloat16Pack(f); ++n_calls;
        const int cls = half_class(h);
        if (f != f) { if (cls != 2) MISMATCH("nunavutFloat16Pack(NaN 0x%08x) = 0x%04x: NaN-ness lost", bits, h); continue; }
        if (isinf(f)) { if (cls != 1 || ((h & 0x8000) != 0) != (f < 0)) MISMATCH("nunavutFloat16Pack(inf 0x%08x) = 0x%04x", bits, h); continue; }
        if (cls == 2) { MISMATCH("nunavutFloat16Pack(0x%08x finite) = 0x%04x NaN", bits, h); continue; }
        const double x = (double) f;
        if (cls == 1) { if (fabs(x) < 65504.0) MISMATCH("nunavutFloat16Pack(%a) = infinity for an in-range magnitude", x); continue; }
        if (fabs(x) >= 65536.0) { MISMATCH("nunavutFloat16Pack(%a) = 0x%04x: out-of-range magnitude must map to infinity", x, h); continue; }
        const double y = half_value(h);
        /* adjacent halves of y */
        const uint16_t mag = h & 0x7FFF;
        const double up = (mag < 0x7BFF) ? half_value((uint16_t) (mag + 1)) : INFINITY, down = (mag > 0) ? half_value((uint16_t) (mag - 1)) : -half_value(1);
        const double ax = fabs(x), ay = fabs(y);
        if (((h & 0x8000) != 0) != (signbit(f) != 0) && !(ay == 0 && ax < half_value(1))) { MISMATCH("nunavutFloat16Pack(%a) = 0x%04x: sign lost", x, h); continue; }
        if (!(ax >= down && ax <= up)) MISMATCH("nunavutFloat16Pack(%a) = 0x%04x (%a): neither the nearest nor an adjacent half", x, h, y);
        if (thorough && have_prev && prev_f == prev_f && !isinf(prev_f) && (prev_f >= 0) == (f >= 0) && f >= 0 && half_class(prev_h) == 0 && f > prev_f && half_value(h) < half_value(prev_h)) MISMATCH("nunavutFloat16Pack not monotone: %a -> 0x%04x but %a -> 0x%04x", (double) prev_f, prev_h, x, h);
        prev_h = h; prev_f = f; have_prev = 1;
    }
}

static void test_float_fields(unsigned shard, unsigned nshards, int thorough)
{
    for (size_t off = shard; off <= 23; off += nshards) for (int k = 0; k < (thorough ? 4000 : 400); ++k) for (int pat = 0; pat < 3; ++pat) {
        const size_t bs = (off + 64 + 7) / 8;
        uint8_t* buf = xalloc(bs); uint8_t* before = xalloc(bs);
        fill(buf, bs, pat); memcpy(before, buf, bs);
        uint32_t b32 = rnd(); uint64_t b64 = rnd64(); float f; double d; memcpy(&f, &b32, 4); memcpy(&d, &b64, 8);
        if (nunavutSetF32(buf, bs, off, f) < 0) MISMATCH("nunavutSetF32 off=%zu refused", off); ++n_calls;
        for (size_t i = 0; i < bs * 8; ++i) { const int want = (i >= off && i < off + 32) ? (int) ((b32 >> (i - off)) & 1) : getbit(before, bs, i); if (getbit(buf, bs, i) != want) { MISMATCH("nunavutSetF32 off=%zu bits=%08x: bit %zu wrong (%s)", off, b32, i, (i >= off && i < off + 32) ? "addressed" : "not addressed"); break; } }
        const float g = nunavutGetF32(buf, bs, off); uint32_t gb; memcpy(&gb, &g, 4); ++n_calls;
        if (gb != b32 && !(f != f && g != g)) MISMATCH("nunavutGetF32 off=%zu: %08x read back as %08x", off, b32, gb);
        memcpy(buf, before, bs);
        if (nunavutSetF64(buf, bs, off, d) < 0) MISMATCH("nunavutSetF64 off=%zu refused", off); ++n_calls;
        for (size_t i = 0; i < bs * 8; ++i) { const int want = (i >= off && i < off + 64) ? (int) ((b64 >> (i - off)) & 1) : getbit(before, bs, i); if (getbit(buf, bs, i) != want) { MISMATCH("nunavutSetF64 off=%zu: bit %zu wrong", off, i); break; } }
        const double gd = nunavutGetF64(buf, bs, off); uint64_t gdb; memcpy(&gdb, &gd, 8); ++n_calls;
        if (gdb != b64 && !(d != d && gd != gd)) MISMATCH("nunavutGetF64 off=%zu: read back differs", off);
        /* F16 through a buffer + too small buffers */
        memcpy(buf, before, bs);
        const uint16_t h = (uint16_t) rnd(); const float hf = nunavutFloat16Unpack(h);
        if (nunavutSetF16(buf, bs, off, hf) < 0) MISMATCH("nunavutSetF16 off=%zu refused", off); ++n_calls;
        const float hb = nunavutGetF16(buf, bs, off); ++n_calls;
        if (!(hb == hf || (hb != hb && hf != hf))) MISMATCH("nunavutGetF16(SetF16(%a)) = %a at off=%zu", (double) hf, (double) hb, off);
        for (size_t i = 0; i < bs * 8; ++i) if (!(i >= off && i < off + 16) && getbit(buf, bs, i) != getbit(before, bs, i)) { MISMATCH("nunavutSetF16 off=%zu: bit %zu outside the field changed", off, i); break; }
        const size_t small = (off + 16) / 8;   /* strictly too small for 32 bits at off */
        uint8_t* sb = xalloc(small); fill(sb, small, pat);
        ++n_toosmall; if (nunavutSetF32(sb, small, off, f) >= 0 && small * 8 < off + 32) MISMATCH("nunavutSetF32 off=%zu buf_size=%zu: too small buffer accepted", off, small);
        /* reads beyond the end are zero extended */
        const float z = nunavutGetF32(sb, 0, off); uint32_t zb; memcpy(&zb, &z, 4); ++n_calls; if (zb != 0) MISMATCH("nunavutGetF32 from an empty buffer = %08x, expected 0", zb);
        free(sb); free(buf); free(before);
    }
}

#ifdef VERIF_CPP_SHIM
static void test_set_zeros(unsigned shard, unsigned nshards, int thorough);
#endif
int main(int argc, char** argv)
{
    if (argc < 6) return 2;
    const char* mode = argv[1]; const unsigned shard = (unsigned) atoi(argv[2]), nshards = (unsigned) atoi(argv[3]); rng ^= (uint32_t) atoi(argv[4]) * 2654435761u + shard; const int thorough = atoi(argv[5]);
    if (!strcmp(mode, "copy")) test_copy_bits(shard, nshards, thorough);
    else if (!strcmp(mode, "getbits")) test_get_bits(shard, nshards, thorough);
    else if (!strcmp(mode, "int")) test_set_get_int(shard, nshards, thorough);
    else if (!strcmp(mode, "f16")) test_float16(shard, nshards, thorough);
    else if (!strcmp(mode, "float")) test_float_fields(shard, nshards, thorough);
#ifdef VERIF_CPP_SHIM
    else if (!strcmp(mode, "zeros")) test_set_zeros(shard, nshards, thorough);
#endif
    else return 2;
    printf("COUNT calls %llu\nCOUNT mismatches %llu\nCOUNT too_small_cases %llu\n", n_calls, n_mismatch, n_toosmall);
    return 0;
}
