#!/bin/sh
# tools/collect_seeds.sh <ID> <worktree> <first index>: copy a sub-agent's _seed/ deliveries into seeded/<ID>-<n>/ and drop the worktree
id=$1; wt=$2; n=$3
for k in 1 2 3; do
  if [ -f "$wt/_seed/patch$k.diff" ]; then
    d=/verif/seeded/$id-$n; mkdir -p $d
    cp "$wt/_seed/patch$k.diff" $d/patch.diff; cp "$wt/_seed/demo$k.py" $d/demo.py 2>/dev/null; cp "$wt/_seed/notes$k.md" $d/notes.md 2>/dev/null
    [ -f $d/meta.json ] || echo "{\"round\": ${ROUND:-2}}" > $d/meta.json
    n=$((n+1))
  fi
done
git -C /repo worktree remove --force "$wt" 2>/dev/null; rm -rf "$wt"; git -C /repo worktree prune
