"""C19 - the bundled template engine is a conservative extension of stock Jinja2.

Monitors: (1) differential execution of generated marker-free templates under nunavut.jinja.jinja2 and under stock Jinja2
with identical environment options and contexts (same output, or failure where upstream fails); (2) metamorphic relation
for auto-indent markers inside the bundled engine (marker construct == plain construct with every non-empty line prefixed
by the whitespace preceding the marker); (3) assert / ifuses / ifnuses against plain-conditional equivalents computed
outside the engine.
"""
import collections
import random
import re

from vlib import common

LEVEL = "exploration"
MANIFEST = {
    "category": "exploration",
    "technique": "differential execution against stock Jinja2 3.1.6 + metamorphic auto-indent relation + conditional-equivalence oracle, grammar-generated templates",
    "text": "A typed grammar generates templates over the stable common core (text with all newline styles, well-typed "
            "expressions/filters/tests, if/for/set/macro/call/filter/with/raw/comments, include/import/extends over a DictLoader, "
            "whitespace control on every side, trim/lstrip/keep_trailing_newline/newline_sequence/line statements) and renders "
            "each with both engines in the same process with many differently configured environments alive (so lexer/parser "
            "caches are shared as in real use); auto-indent constructs are compared with their plain form line by line; assert "
            "and use-query chains are compared with the arm selected by a Python evaluation of the same conditions."
            " Marker expressions include values that escaping touches (plain strings, |safe markup, macro calls, Markup context values) under autoescape.",
    "note": "The differential oracle is as wide as the calibrated common core (constructs whose behaviour changed upstream between 2.11 "
            "and 3.1 are not generated: ill-typed filter operands, indent/truncate/urlize, {%+ without lstrip_blocks, async, i18n). "
            "Exception types/messages are not compared, only success vs failure.",
}
MANIFEST["text"] += ' Template sources are also fed with CR-only and CRLF line endings; operands include attribute chains with several integer subscripts; use-query tags are rendered again with other answers and placed where control never reaches them.'


# ------------------------------------------------------------------------------------------------ typed grammar
class G:
    def __init__(self, r, markers=False):
        self.r = r
        self.loop_depth = 0
        self.macros = 0

    def ws(self):
        return self.r.choice(["", " ", "  ", "\t", "\n", "\n\n", " \n", "\r\n", "    ", "\n  ", "\n\t"])

    def text(self):
        return self.r.choice(["foo", "bar baz", "{", "}", "%", "#", "x\ny", "", "  lead", "trail  ", "a\r\nb", "*", "{ {", "é",
                              "<b>", "&amp;", "line\n", "\n", "{ %", "# not", "tab\there", "q'uote\"", "}}", "%}", "-", "+"]) + self.ws()

    # ---- expressions by type
    def e_int(self, d=0):
        r = self.r
        c = r.random()
        if d > 2 or c < 0.35:
            return r.choice(["a", "n7", "1", "2", "0", "42", "-3", "items|length", "s|length",
                             # attribute chains with several integer subscripts in a row, next to number literals of every form
                             "grid.0.1", "grid.1.0", "grid.1.1", "cube.0.1.0", "cube.1.0.1", "grid.0.1 + 1", "(grid.1.0)", "grid[0][1]", "grid.0[1]", "1_0" if False else "10",
                             "(2.5)|int", "(1.0 + 0.5)|round|int", "(0.1 + grid.0.1)|int"] + (["loop.index", "loop.index0", "loop.length"] if self.loop_depth else []))
        if c < 0.6:
            return "(%s %s %s)" % (self.e_int(d + 1), r.choice(["+", "-", "*"]), self.e_int(d + 1))
        if c < 0.7:
            return "(%s %s ((%s)|abs + 1))" % (self.e_int(d + 1), r.choice(["//", "%"]), self.e_int(d + 1))
        if c < 0.8:
            return "(%s)|abs" % self.e_int(d + 1)
        if c < 0.88:
            return "(%s if %s else %s)" % (self.e_int(d + 1), self.e_bool(d + 1), self.e_int(d + 1))
        if c < 0.94:
            return "(%s)|%s" % (self.e_str(d + 1), r.choice(["length", "wordcount"]))
        return "ints|%s" % r.choice(["sum", "length", "max", "min", "first", "last"])

    def e_str(self, d=0):
        r = self.r
        c = r.random()
        if d > 2 or c < 0.35:
            return r.choice(["b", "s", '"lit"', "'q\\nz'", '"Hello World"', '""', '" pad "', "ml", '"a<b&c"',
                             '"real\nbreak"', "'cr\r\nlf'", '"two\n\nbreaks"'])    # literals that contain real line terminators
        if c < 0.5:
            return "(%s ~ %s)" % (self.e_str(d + 1), r.choice([self.e_str(d + 1), self.e_int(d + 1)]))
        if c < 0.8:
            return "(%s)|%s" % (self.e_str(d + 1), r.choice(["upper", "lower", "trim", "title", "capitalize", 'replace("a","b")', "string",
                                                              "center(9)", 'default("d")', "reverse", "striptags" if False else "upper",
                                                              "first" if False else "lower", 'replace("\\n", "|")']))
        if c < 0.86:
            return "(%s)|string" % self.e_int(d + 1)
        if c < 0.92:
            return "(%s if %s else %s)" % (self.e_str(d + 1), self.e_bool(d + 1), self.e_str(d + 1))
        if c < 0.96:
            return "strs|join(%s)" % r.choice(['","', '"\\n"', '""'])
        return "ints|join('-')"

    def e_bool(self, d=0):
        r = self.r
        c = r.random()
        if d > 2 or c < 0.25:
            return r.choice(["flag", "true", "false", "not flag"] + (["loop.first", "loop.last"] if self.loop_depth else []))
        if c < 0.45:
            return "(%s %s %s)" % (self.e_int(d + 1), r.choice(["==", "!=", "<", "<=", ">", ">="]), self.e_int(d + 1))
        if c < 0.55:
            return "(%s %s %s)" % (self.e_str(d + 1), r.choice(["==", "!="]), self.e_str(d + 1))
        if c < 0.7:
            return "(%s %s %s)" % (self.e_bool(d + 1), r.choice(["and", "or"]), self.e_bool(d + 1))
        if c < 0.76:
            return "(not %s)" % self.e_bool(d + 1)
        if c < 0.88:
            return "(%s is %s)" % (self.e_int(d + 1), r.choice(["odd", "even", "divisibleby(2)", "number", "defined", "none", "string", "sameas(a)"]))
        if c < 0.94:
            return "(%s is %s)" % (r.choice(["b", "n", "items", "undefined_name", "s"]), r.choice(["defined", "none", "string", "iterable", "sequence", "mapping"]))
        return "(%s in %s)" % (r.choice([self.e_int(d + 1) + " in ints", "'q' in strs", self.e_str(d + 1) + " in strs"]).split(" in ")[0],
                               r.choice(["ints", "strs"]))

    def expr(self):
        k = self.r.random()
        if k < 0.4:
            return self.e_str()
        if k < 0.7:
            return self.e_int()
        if k < 0.85:
            return self.e_bool()
        return self.r.choice(["items", "ints", "strs", "[%s, %s]" % (self.e_int(1), self.e_str(1)), "n", "ints|reverse|list", "ints|sort", "strs|sort",
                              "(1, 2)", "{'k': %s}" % self.e_int(1), "items|first|default('e')", "ints|list|length"])

    def dash(self, allow_plus=False):
        c = self.r.random()
        if c < 0.6:
            return ""
        if allow_plus and c > 0.95:
            return "+"
        return "-"

    # ---- statements
    def node(self, d=0):
        r = self.r
        c = r.random()
        L, Rr = "{%%%s " % self.dash(self.plus), " %s%%}" % self.dash()
        if d > 3 or c < 0.28:
            return self.text()
        if c < 0.44:
            return "{{%s %s %s}}" % (self.dash(), self.expr(), self.dash())
        if c < 0.56:
            s = "%sif %s%s%s" % (L, self.e_bool(), Rr, self.body(d + 1))
            for _ in range(r.choice([0, 0, 1, 2])):
                s += "{%%%s elif %s %s%%}%s" % (self.dash(), self.e_bool(), self.dash(), self.body(d + 1))
            if r.random() < 0.6:
                s += "{%%%s else %s%%}%s" % (self.dash(), self.dash(), self.body(d + 1))
            return s + "{%%%s endif %s%%}" % (self.dash(), self.dash())
        if c < 0.68:
            it = r.choice(["items", "ints", "strs", "[]", "range(3)", "ints|reverse|list", "(items if flag else [])"])
            self.loop_depth += 1
            inner = self.body(d + 1) + r.choice(["{{ loop.index }}", "{{ x }}", "{{ loop.cycle('a', 'b') }}", "{{ loop.revindex }}", "{{ x }}{% if not loop.last %},{% endif %}", ""])
            self.loop_depth -= 1
            s = "%sfor x in %s%s%s%s" % (L, it, "", Rr, inner)   # loop filters: loop.length/revindex semantics changed upstream in 3.0
            if r.random() < 0.3:
                s += "{%%%s else %s%%}%s" % (self.dash(), self.dash(), self.text())
            return s + "{%%%s endfor %s%%}" % (self.dash(), self.dash())
        if c < 0.73:
            return "{%% set v%d = %s %%}{{ v%d }}" % (d, self.expr(), d)
        if c < 0.79:
            return "{#%s %s %s#}" % (self.dash(), r.choice(["c", "-- x", " multi\nline ", "{{ not rendered }}", "{% nor this %}", ""]), self.dash())
        if c < 0.83:
            return "{%%%s raw %s%%}%s{%%%s endraw %s%%}" % (self.dash(), self.dash(), r.choice(["{{ x }}", "{% y %}", "{#", "plain", " {{ sp }} \n"]), self.dash(), self.dash())
        if c < 0.89:
            self.macros += 1
            m = "m%d" % self.macros
            if r.random() < 0.3:
                return "{%% macro %s(p, q=%s) %%}%s{{ p }}[{{ caller() }}]{{ q }}{%% endmacro %%}{%% call %s(%s) %%}%s{%% endcall %%}" % (
                    m, self.e_int(2), self.body(d + 1), m, self.expr(), self.text())
            return "{%% macro %s(p, q=%s) %%}%s{{ p }}{{ q }}{%% endmacro %%}{{ %s(%s) }}" % (
                m, self.e_int(2), self.body(d + 1), m, self.expr())
        if c < 0.92:
            return "{%% filter %s %%}%s{%% endfilter %%}" % (r.choice(["upper", "lower", "trim", "title", 'replace("o","0")']), self.body(d + 1))
        if c < 0.94:
            return "{%% set blk %%}%s{%% endset %%}{{ blk|length }}{{ blk }}" % self.body(d + 1)
        if c < 0.96:
            return "{%% with w = %s %%}%s{{ w }}{%% endwith %%}" % (self.expr(), self.body(d + 1))
        if c < 0.955:
            return r.choice(["{% include 'inc1' %}", "{% include 'inc2' %}", "{% include 'missing' ignore missing %}", "{% import 'lib' as lib %}{{ lib.hello('w') }}",
                             "{%% from 'lib' import hello %%}{{ hello(%s) }}" % self.e_str(2), "{% include ['nope', 'inc1'] %}", "{% include 'inc1' without context %}"])
        if c < 0.965:
            return "{% set ns = namespace(c=0) %}{% for y in ints %}{% set ns.c = ns.c + y %}{% endfor %}{{ ns.c }}"
        return self.rare(d)

    def rare(self, d):
        """Less common constructs of the ordinary language (each is plain Jinja2, no nunavut marker)."""
        r = self.r
        self.macros += 1
        m = "r%d" % self.macros
        k = r.randrange(14)
        if k == 0:    # a macro body that reads both implicit collections
            return "{%% macro %s(p) %%}{{ p }}|{{ varargs }}|{{ kwargs|dictsort }}{%% endmacro %%}{{ %s(%s, 2, 'x', k=3, j=%s) }}" % (m, m, self.e_int(2), self.e_int(2))
        if k == 1:    # call block with arguments, macro using caller(...), varargs and kwargs
            return ("{%% macro %s(p) %%}<{{ caller(p, 7) }}>{{ varargs|length }}{{ kwargs|dictsort|length }}{%% endmacro %%}"
                    "{%% call(u, w) %s(%s, 5, z=1) %%}[{{ u }}:{{ w }}]{%% endcall %%}" % (m, m, self.e_str(2)))
        if k == 2:    # block-form set with a filter
            return "{%% set sb | %s %%}%s{%% endset %%}{{ sb }}" % (r.choice(["upper", "trim", "lower"]), self.body(d + 1))
        if k == 3:    # tuple unpacking and dict iteration
            return "{% for k2, v2 in {'b': 2, 'a': 1}|dictsort %}{{ k2 }}={{ v2 }};{% endfor %}{% for p1, p2 in [(1, 'x'), (2, 'y')] %}{{ p1 }}{{ p2 }}{% endfor %}"
        if k == 4:    # recursive loop
            return "{% for nd in tree recursive %}{{ nd.n }}{{ loop.depth }}{% if nd.c %}({{ loop(nd.c) }}){% endif %}{% endfor %}"
        if k == 5:    # subscripts, slices, attribute of a literal
            return "{{ %s }}" % r.choice(["ints[0]", "ints[1:]", "strs[-1]", "b[:2]", "{'k': 1}.k", "{'k': a}['k']", "ints[::2]", "(strs|list)[0]", "s[1:3]|upper"])
        if k == 6:    # collection filters
            return "{{ %s }}" % r.choice(["ints|map('string')|join('+')", "ints|select('odd')|list", "ints|reject('odd')|list", "strs|map('upper')|list",
                                           "ints|batch(2)|list", "ints|slice(2)|list", "ints|unique|list", "'%s-%s'|format(a, b)", "a|float|round(1)",
                                           "'12'|int + 1", "b|indent(2)", "ml|indent(3, true)", "b|truncate(5, true)", "strs|sort(reverse=true)|join"])
        if k == 7:    # scoped autoescape
            return "{%% autoescape %s %%}{{ %s }}{{ '<x>'|safe }}{%% endautoescape %%}" % (r.choice(["true", "false"]), self.e_str(1))
        if k == 8:    # imports in their other forms
            return r.choice(["{% import 'lib' as l2 with context %}{{ l2.hello(b) }}", "{% from 'lib' import hello as hi %}{{ hi(a) }}",
                             "{% from 'lib' import hello with context %}{{ hello('c') }}", "{% include 'inc2' with context %}"])
        if k == 9:    # inline conditional without else, tests with arguments, chained filters with arguments
            return "{{ %s if %s }}{{ a is divisibleby(5) }}{{ b|default('x', true)|center(7)|replace(' ', '.') }}" % (self.e_str(1), self.e_bool(1))
        if k == 10:   # whitespace control around comments and raw
            return "a {#- c -#} b {%- raw -%} {{ r }} {%- endraw -%} c"
        if k == 11:   # loop helpers
            return "{% for y in ints %}{{ loop.previtem|default('-') }}{{ loop.nextitem|default('-') }}{{ loop.changed(y) }}{% endfor %}"
        if k == 12:   # nested macros and closures
            return ("{%% macro %s(p) %%}{%% macro in_%s(q) %%}{{ p }}{{ q }}{%% endmacro %%}{{ in_%s(1) }}{{ in_%s(p) }}{%% endmacro %%}{{ %s(%s) }}"
                    % (m, m, m, m, m, self.e_int(2)))
        return "{% with a2 = a, b2 = b %}{{ a2 }}{{ b2 }}{% with a2 = 9 %}{{ a2 }}{% endwith %}{{ a2 }}{% endwith %}"

    def body(self, d):
        return "".join(self.node(d) for _ in range(self.r.randint(0, 3)))

    def template(self, plus):
        self.plus = plus
        t = "".join(self.ws() + self.node(0) for _ in range(self.r.randint(1, 5)))
        c = self.r.random()
        if c < 0.08:
            t = "{% extends 'base' %}{% block content %}" + t + "{% endblock %}" + self.r.choice(["", "{% block tail %}T{{ super() }}{% endblock %}"])
        elif c < 0.14:
            # dynamic inheritance: the extends is conditional, so the output guard is decided at render time; top-level set blocks and
            # assignments after it feed the blocks
            t = ("{%% if %s %%}{%% extends 'base' %%}{%% endif %%}{%% set tv %%}<%s>{%% endset %%}{%% set tw = %s %%}top{{ tv }}"
                 "{%% block content %%}C[{{ tv }}{{ tw }}]%s{%% endblock %%}{%% block tail %%}T{{ super() }}{{ self.content() }}{%% endblock %%}"
                 % (self.r.choice(["flag", "true", "false", "not flag"]), self.r.choice(["hello w", "{{ a }}", ""]), self.e_int(1), t))
        return t


LIB = {
    "inc1": "INC1[{{ a }}]{% if flag %}\n  yes\n{% endif %}",
    "inc2": "  {{ b }}\n{%- for i in ints %} {{ i }}\n{% endfor -%}\n end",
    "lib": "{% macro hello(who) -%}\n  Hi {{ who }}!\n{%- endmacro %}",
    "base": "<base>\n{% block content %}default{% endblock %}\n  {% block tail %}tail{% endblock %}\n</base>\n",
}


def context(r):
    return dict(a=r.choice([0, 1, 5, -3]), n7=7, b=r.choice(["x", "Hello World", " pad ", ""]), items=r.choice([[], [1, 2, 3], ["q", "r"]]),
                ints=r.choice([[1], [3, 1, 2], [5, 5, 0, -1]]), strs=r.choice([["q"], ["b", "a", "q"], ["", "zz"]]),
                s=r.choice(["line1\nline2", "t\r\nu", "", "one"]), ml="first\n  second\n\nfourth\n", n=r.choice([None, 7]), flag=r.choice([True, False]),
                tree=[dict(n="r", c=[dict(n="k1", c=[]), dict(n="k2", c=[dict(n="g", c=[])])]), dict(n="s", c=[])],
                grid=[[1, 2], [3, 4]], cube=[[[5, 6], [7, 8]], [[9, 10], [11, 12]]])


def env_options(r):
    o = dict(trim_blocks=r.random() < 0.35, lstrip_blocks=r.random() < 0.35, keep_trailing_newline=r.random() < 0.5)
    if r.random() < 0.15:
        o["newline_sequence"] = "\r\n"
    if r.random() < 0.1:
        o["line_statement_prefix"] = "%%"
    if r.random() < 0.1:
        o["line_comment_prefix"] = "##"
    if r.random() < 0.1:
        o["autoescape"] = True
    return o


def render(mod, opts, name, templates, ctxt):
    try:
        env = mod.Environment(loader=mod.DictLoader(templates), **opts)
        return ("ok", env.get_template(name).render(**ctxt))
    except RecursionError:
        return ("err", "RecursionError")
    except Exception as e:
        return ("err", type(e).__name__)


MARK = re.compile(r"\{[%{#]\*")


def differential_shard(args):
    seed, n = args
    import jinja2 as stock
    from nunavut.jinja import jinja2 as bund
    r = random.Random("c19d/%s" % seed)
    res = dict(evaluations=0, agree_ok=0, agree_err=0, refs=[], shapes=set(), comment_star=0)
    for i in range(n):
        opts = env_options(r)
        g = G(r)
        t = g.template(plus=opts["lstrip_blocks"])
        # comments whose text starts with '*' are ordinary comments in stock Jinja2 ("{#* ... #}")
        star = False
        if r.random() < 0.06:
            t = t + g.ws() + r.choice(["  ", "\t", "x "]) + "{#* starred comment #}" + g.text()
            star = True
            res["comment_star"] += 1
        if MARK.search(t.replace("{#*", "")):
            continue
        # the template file as another editor / platform would have saved it: CR-only or CRLF line endings throughout
        style = r.random()
        if style < 0.12:
            t = t.replace("\r\n", "\n").replace("\n", "\r")
            res["cr_only_sources"] = res.get("cr_only_sources", 0) + 1
        elif style < 0.24:
            t = t.replace("\r\n", "\n").replace("\n", "\r\n")
        c = context(r)
        tm = dict(LIB, main=t)
        a = render(stock, opts, "main", tm, c)
        b = render(bund, opts, "main", tm, c)
        res["evaluations"] += 1
        res["shapes"].add(common.sha(re.sub(r"[a-z0-9]+", "w", t))[:16])
        if a[0] == b[0] == "ok" and a[1] != b[1]:
            strip = lambda x: re.sub(r"0[xX][0-9a-fA-F]+", "0x", x)   # object addresses in reprs
            if strip(a[1]) == strip(b[1]):
                b = a
        if a[0] != b[0] or (a[0] == "ok" and a[1] != b[1]):
            mech = None
            if star:
                t2 = t.replace("{#* starred comment #}", "{# starred comment #}")
                a2 = render(stock, opts, "main", dict(LIB, main=t2), c)
                b2 = render(bund, opts, "main", dict(LIB, main=t2), c)
                if a2 == b2:
                    mech = "starred-comment-eats-indentation"
            if len(res["refs"]) < 15:
                res["refs"].append((mech, "bundled engine renders an ordinary template differently from stock Jinja2",
                                    dict(template=t, options=opts, context=c, stock=a, bundled=b)))
            else:
                res.setdefault("more", collections.Counter())[mech] += 1
        elif a[0] == "ok":
            res["agree_ok"] += 1
        else:
            res["agree_err"] += 1
    return res


# ------------------------------------------------------------------------------------------------ auto-indent relation
def lineprefix_ref(s, w):
    return [w + l if l else l for l in s.splitlines()]


def marker_shard(args):
    seed, n = args
    from nunavut.jinja import jinja2 as bund
    r = random.Random("c19m/%s" % seed)
    res = dict(evaluations=0, agree=0, refs=[], shapes=set(), nontrivial=0)
    for i in range(n):
        opts = env_options(r)
        opts.pop("line_statement_prefix", None)
        opts.pop("line_comment_prefix", None)
        g = G(r)
        g.plus = False
        w = r.choice(["", " ", "  ", "    ", "\t", "\t ", "      "])
        pre = r.choice(["", "\n", "x\n", "text|", "a\n\n", "{{ a }}\n", "{% if true %}\n", "|"])
        post = r.choice(["", "\n", "|tail", "\n  next\n"])
        close = "{% endif %}" if "{% if true %}" in pre else ""
        kind = r.random()
        if kind < 0.45:
            e = r.choice([g.e_str(), g.e_str(), "ml", "s", "''", g.e_int(), "ml|upper", "strs|join('\\n')", "b", '"x\\n\\ny\\n"', '"\\n"', '"one"',
                          # values with characters that escaping touches: plain strings, safe markup from a filter, a macro call, a context value
                          '"<b>&\\n<i>\'q\'"', '"<b>&\\n<i>"|safe', "hello3()", "mk", "esc", "(mk ~ esc)", "hello3()|upper"])
            if r.random() < 0.5 and any(x in e for x in ("<", "hello3", "mk", "esc")):
                opts["autoescape"] = True
            marked, plain = "{{* %s }}" % e, "{{ %s }}" % e
        elif kind < 0.6:
            body = g.body(1) + r.choice(["", "\nline2\n", "{{ ml }}"])
            cond = g.e_bool()
            marked, plain = "{%%* if %s %%}%s{%% endif %%}" % (cond, body), "{%% if %s %%}%s{%% endif %%}" % (cond, body)
        elif kind < 0.75:
            it = r.choice(["items", "ints", "[]", "strs"])
            body = r.choice(["{{ x }}\n", "{{ x }},", "row {{ loop.index }}\n  sub\n", ""])
            marked, plain = "{%%* for x in %s %%}%s{%% endfor %%}" % (it, body), "{%% for x in %s %%}%s{%% endfor %%}" % (it, body)
        elif kind < 0.88:
            inc = r.choice(["inc1", "inc2", "base"])
            marked, plain = "{%%* include '%s' %%}" % inc, "{%% include '%s' %%}" % inc
        elif kind < 0.94:
            body = g.body(1) + "\nx\n"
            marked, plain = "{%%* filter upper %%}%s{%% endfilter %%}" % body, "{%% filter upper %%}%s{%% endfilter %%}" % body
        else:
            marked = "{%%* call hello2() %%}%s{%% endcall %%}" % "in\ncall\n"
            plain = "{%% call hello2() %%}%s{%% endcall %%}" % "in\ncall\n"
        macro = "{% macro hello2() %}[{{ caller() }}]\n  m2\n{% endmacro %}{% macro hello3() %}<b>&amp;</b>\n<i>'q'</i>{% endmacro %}"
        if "without context" in marked:   # upstream quirk: include-without-context escapes an enclosing filter block in both engines
            continue
        c = context(r)
        c["mk"] = bund.Markup("<p>&amp;</p>\n<q a=\"1\">")
        c["esc"] = "<r>&'\"\n</r>"
        S1, S2 = "\x01", "\x02"
        tm_marked = dict(LIB, main=macro + pre + S1 + w + marked + S2 + post + close)
        tm_plain = dict(LIB, main=macro + pre + S1 + plain + S2 + post + close)
        # S1 sits between `pre` and the whitespace, so the whitespace preceding the marker is exactly `w`
        a = render(bund, opts, "main", tm_marked, c)
        b = render(bund, opts, "main", tm_plain, c)
        res["evaluations"] += 1
        res["shapes"].add((w, pre, post, marked[:14]))
        wit = dict(marked=tm_marked["main"], plain=tm_plain["main"], options=opts, context=c, prefix=w, marked_result=a, plain_result=b)
        if a[0] != b[0]:
            res["refs"].append((None, "marker construct %s where the plain construct %s" % (a, b), wit))
            continue
        if a[0] == "err":
            res["agree"] += 1
            continue
        try:
            xa = a[1].split(S1, 1)[1].split(S2, 1)[0]
            xb = b[1].split(S1, 1)[1].split(S2, 1)[0]
            outer_same = (a[1].split(S1, 1)[0], a[1].split(S2, 1)[1]) == (b[1].split(S1, 1)[0], b[1].split(S2, 1)[1])
        except IndexError:
            res["refs"].append((None, "sentinels lost in rendering", wit))
            continue
        exp = lineprefix_ref(xb, w)
        got = xa.splitlines()
        while exp and exp[-1] == "":      # the final line terminator(s) of the construct are not judged
            exp.pop()
        while got and got[-1] == "":
            got.pop()
        if got != exp or not outer_same:
            res["refs"].append((None, "auto-indent output is not the plain output with non-empty lines prefixed by %r" % w,
                                dict(wit, got_lines=xa.splitlines(), expected_lines=exp)))
        else:
            res["agree"] += 1
            if w and len(exp) > 1:
                res["nontrivial"] += 1
    return res


# ------------------------------------------------------------------------------------------------ extension tags
def extension_cases(ctx, n):
    from nunavut.jinja import CodeGenEnvironmentBuilder
    from nunavut.jinja.jinja2 import DictLoader
    from nunavut.jinja.extensions import JinjaAssert, UseQuery
    from nunavut.lang import LanguageContextBuilder
    r = random.Random("c19x/%s" % ctx.seed)
    lctx = LanguageContextBuilder(include_experimental_languages=True).set_target_language("cpp").create()
    for i in range(n):
        truth = {q: r.random() < 0.5 for q in ("qa", "qb", "qc", "qd")}
        arms = []
        narms = r.randint(1, 5)
        t = ""
        for k in range(narms):
            neg = r.random() < 0.5
            q = r.choice(sorted(truth))
            kw = ("if" if k == 0 else "elif") + ("nuses" if neg else "uses")
            t += "{%% %s \"%s\" %%}ARM%d" % (kw, q, k)
            arms.append((neg, q))
        has_else = r.random() < 0.6
        if has_else:
            t += "{% else %}ELSE"
        t += "{%% %s %%}" % r.choice(["endifuses", "endifnuses"])
        exp = "ELSE" if has_else else ""
        for k, (neg, q) in enumerate(arms):
            if truth[q] != neg:
                exp = "ARM%d" % k
                break
        env = CodeGenEnvironmentBuilder(DictLoader({"t": "[" + t + "]"}), lctx).set_extensions(UseQuery, JinjaAssert).create()
        for q, v in truth.items():
            setattr(env.target_language_uses_queries, q, (lambda v=v: v))
        ctx.count("evaluations")
        ctx.count("usequery_chains")
        try:
            got = env.get_template("t").render()
        except Exception as e:
            got = "raises %s" % type(e).__name__
        if got != "[" + exp + "]":
            ctx.refute(None, "use-query chain selected %r, a plain conditional selects %r" % (got, exp), dict(template=t, truth=truth))
        else:
            ctx.count("usequery_agree")
        ctx.distinct(("uq", tuple(arms), has_else, tuple(sorted(truth.items()))))
        # the same loaded template rendered again after the answers of the queries changed: a conditional is evaluated at every rendering
        truth2 = {q: r.random() < 0.5 for q in truth}
        exp2 = "ELSE" if has_else else ""
        for k, (neg, q) in enumerate(arms):
            if truth2[q] != neg:
                exp2 = "ARM%d" % k
                break
        for q, v in truth2.items():
            setattr(env.target_language_uses_queries, q, (lambda v=v: v))
        ctx.count("evaluations")
        ctx.count("usequery_rerenders")
        try:
            got2 = env.get_template("t").render()
        except Exception as e:
            got2 = "raises %s" % type(e).__name__
        if got2 != "[" + exp2 + "]":
            ctx.refute(None, "use-query chain rendered again after the queries' answers changed selected %r, a plain conditional selects %r" % (got2, exp2),
                       dict(template=t, truth_first=truth, truth_second=truth2))
        else:
            ctx.count("usequery_rerender_agree")
        # and it is evaluated only where control reaches it: arms after the one taken, and chains inside dead code, may name queries
        # that raise or do not exist, exactly as `{% if true %}..{% elif boom() %}` and `{% if false %}{% if boom() %}` may
        first = r.choice(sorted(truth))
        lazy = "{%% %s \"%s\" %%}TAKEN{%% elifuses \"boomq\" %%}X{%% elifnuses \"nosuchq\" %%}Y{%% endifuses %%}" % ("ifuses" if truth2[first] else "ifnuses", first)
        dead = "{% if false %}{% ifuses \"nosuchq\" %}D{% elifnuses \"boomq\" %}E{% endifuses %}{% endif %}"
        deadelse = "{% if true %}K{% else %}{% ifnuses \"boomq\" %}D{% endifnuses %}{% endif %}"
        env2 = CodeGenEnvironmentBuilder(DictLoader({"lazy": "[" + lazy + "]", "dead": "[" + dead + deadelse + "]"}), lctx).set_extensions(UseQuery, JinjaAssert).create()
        for q, v in truth2.items():
            setattr(env2.target_language_uses_queries, q, (lambda v=v: v))

        def boom():
            raise RuntimeError("query evaluated although control never reaches it")
        setattr(env2.target_language_uses_queries, "boomq", boom)
        for name, want in (("lazy", "[TAKEN]"), ("dead", "[K]")):
            ctx.count("evaluations")
            ctx.count("usequery_lazy_cases")
            try:
                gotl = env2.get_template(name).render()
            except Exception as e:
                gotl = "raises %s: %s" % (type(e).__name__, str(e)[:80])
            if gotl != want:
                ctx.refute(None, "use-query tag evaluated where an ordinary conditional is not (%s): %r instead of %r" % (name, gotl, want),
                           dict(template=lazy if name == "lazy" else dead + deadelse, truth=truth2))
            else:
                ctx.count("usequery_lazy_agree")
        # undefined query must fail, not silently take a branch
        # assert: behaves as a conditional over its argument
        g = G(r)
        e = r.choice([g.e_bool(), g.e_int(), g.e_str(), "items", "n", "strs"])
        c = context(r)
        msg = r.random() < 0.5
        ta = "A{%% assert %s%s %%}B" % (e, ', "m"' if msg else "")
        ti = "{%% if %s %%}T{%% else %%}F{%% endif %%}" % e
        env = CodeGenEnvironmentBuilder(DictLoader({"a": ta, "i": ti}), lctx).set_extensions(UseQuery, JinjaAssert).create()
        ctx.count("evaluations")
        ctx.count("assert_cases")
        try:
            ref = env.get_template("i").render(**c)
        except Exception:
            continue
        try:
            got = env.get_template("a").render(**c)
        except Exception as ex:
            got = "raises %s" % type(ex).__name__
        want = "AB" if ref == "T" else "raises TemplateAssertionError"
        if got != want:
            ctx.refute(None, "assert over %r gave %r but the same expression as an if-condition is %r" % (e, got, ref), dict(template=ta, context=c))
        else:
            ctx.count("assert_agree_%s" % ("true" if ref == "T" else "false"))
        ctx.distinct(("as", e))


def run(ctx):
    ctx.rule = ("case = (generated template, environment options, context); distinct = distinct template shapes (identifiers/literals "
                "abstracted) for the differential, distinct (prefix, surrounding text, construct) for markers, distinct chains for use-queries")
    try:
        import jinja2 as stock
        ctx.extra["stock_jinja2_version"] = stock.__version__
    except ImportError:
        ctx.inconclusive_because("stock Jinja2 not importable")
        return
    if ctx.replay and "template" in ctx.replay.get("witness", {}):
        w = ctx.replay["witness"]
        from nunavut.jinja import jinja2 as bund
        a = render(stock, w["options"], "main", dict(LIB, main=w["template"]), w["context"])
        b = render(bund, w["options"], "main", dict(LIB, main=w["template"]), w["context"])
        ctx.count("evaluations")
        ctx.distinct("r1"); ctx.distinct("r2")
        if a != b and not (a[0] == b[0] == "err"):
            ctx.refute(ctx.replay.get("mechanism"), "replayed: differs", dict(w, stock=a, bundled=b))
        return
    nd = ctx.pick(16000, 300000)
    nm = ctx.pick(10000, 100000)
    shards = 16
    dres = common.pmap(differential_shard, [(ctx.seed * 100 + i, nd // shards) for i in range(shards)])
    shapes = set()
    for res in dres:
        ctx.count("evaluations", res["evaluations"])
        ctx.count("differential_agree_ok", res["agree_ok"])
        ctx.count("differential_agree_err", res["agree_err"])
        ctx.count("starred_comment_templates", res["comment_star"])
        ctx.count("cr_only_template_sources", res.get("cr_only_sources", 0))
        shapes |= res["shapes"]
        for mech, what, wit in res["refs"]:
            ctx.refute(mech, what, wit)
        for mech, k in res.get("more", {}).items():
            for _ in range(k):
                ctx.refute(mech, "bundled engine renders an ordinary template differently from stock Jinja2 (further case)", {})
    ctx.distinct_many(("d", s) for s in shapes)
    mres = common.pmap(marker_shard, [(ctx.seed * 100 + i, nm // shards) for i in range(shards)])
    mshapes = set()
    for res in mres:
        ctx.count("evaluations", res["evaluations"])
        ctx.count("marker_agree", res["agree"])
        ctx.count("marker_nontrivial", res["nontrivial"])
        mshapes |= res["shapes"]
        for mech, what, wit in res["refs"][:10]:
            ctx.refute(mech, what, wit)
    ctx.distinct_many(("m",) + s for s in mshapes)
    extension_cases(ctx, ctx.pick(1200, 6000))
    g = G(random.Random(ctx.seed))
    ctx.sample({"differential_template": g.template(False), "options": env_options(random.Random(ctx.seed))})
    ctx.sample({"marker_case": "x\n    {{* ml }}", "expected_lines": lineprefix_ref("first\n  second\n\nfourth\n", "    ")})
    ctx.require("differential_agree_ok", 2000)
    ctx.require("differential_agree_err", 20)
    ctx.require("marker_nontrivial", 300)
    ctx.require("usequery_agree", 100)
    ctx.require("assert_agree_true", 30)
    ctx.require("assert_agree_false", 30)
