#!/usr/bin/env python3
"""Regenerates DESIGN.md section 10.5 (which check catches which seeded change) from seeded/*/meta.json."""
import glob, json, os, re
HERE = os.path.dirname(os.path.dirname(os.path.abspath(__file__)))
rows = []
for mp in sorted(glob.glob(os.path.join(HERE, "seeded", "*", "meta.json"))):
    m = json.load(open(mp))
    ran = m.get("ran", [])
    res = []
    for r in ran:
        c = re.search(r"check (C\d\d)", r.get("command", ""))
        if "exit" in r:
            res.append("%s: %s" % (c.group(1) if c else "?", {0: "not caught", 1: "caught", 2: "inconclusive"}.get(r["exit"], "rc=%s" % r["exit"])))
        else:
            res.append(r.get("result", "")[:60])
    first = next((x for r in ran for x in r.get("first_reports", [])), "")
    if m.get("obsolete"):
        res = ["no longer a break (see meta.json)"]
    title = re.sub(r"^Mutation \d+\s*[-:]\s*", "", m.get("title", ""))
    rows.append("| %s | %s | %s | %s | %s |" % (m["id"], title.replace("|", "/")[:110], ", ".join(m.get("touches", []))[:80].replace("src/nunavut/", ""),
                                              "; ".join(res), first.replace("|", "/")[:120] + (" " + m["history"] if m.get("history") else "")))
table = "| seeded change | what it does | touches | result (quick tier, seed 0) | first report |\n|---|---|---|---|---|\n" + "\n".join(rows) + "\n"
p = os.path.join(HERE, "DESIGN.md")
s = open(p).read()
a, b = "<!-- SEEDTABLE:BEGIN -->\n", "<!-- SEEDTABLE:END -->\n"
if a in s:
    s = s[:s.index(a) + len(a)] + table + s[s.index(b):]
    open(p, "w").write(s)
    print("table updated: %d rows, %d caught" % (len(rows), sum(("caught" in r and "not caught" not in r) for r in rows)))
else:
    print(table)
