"""C15 - line post-processing is chunking-independent and changes only what it documents.

Monitor: the real CodeGenerator._generate_with_line_buffer / SupportGenerator._copy_header_using_line_pps are driven
with (text, chunk schedule, processor list) cases; the written stream is compared with a reference that applies fresh
processor instances line by line to the *whole* text, and three direct contracts are evaluated on the output alone.
"""
import io
import itertools
import os
import random
import re

from vlib import common

LEVEL = "exploration"
MANIFEST = {
    "category": "exploration",
    "technique": "runtime monitor: reference line-splitter + output contracts on the real line-buffer loop, exhaustive chunk schedules",
    "text": "Drives the real CodeGenerator._generate_with_line_buffer and SupportGenerator._copy_header_using_line_pps with "
            "every chunking of every text up to a small length over {a,space,tab,CR,LF}, random rich texts with schedules aimed "
            "inside CRLF, and the chunk streams Jinja really produces for the built-in templates (tee'd at the real call site), "
            "comparing the written stream with line-by-line application and with direct trim/limit/identity contracts. "
            "Exhaustive inside the stated bounds, sampled beyond.",
    "note": "Trusts the 20-line reference splitter (LF/CRLF only, the code's own terminator definition) and Python's str.isspace "
            "as the widest whitespace definition.",
}
MANIFEST["text"] += " Every file written by real generators (built-in templates, and user templates whose files begin and end with blank lines, several processor lists) is compared with the processors the call site really applied, instantiated afresh, run over that file's own complete text."
_NL = re.compile(r"\r\n|\n")


def split_lines(text):
    """The code's own terminator definition: LF and CRLF only; a non-empty remainder is a line without terminator."""
    out, pos = [], 0
    for m in _NL.finditer(text):
        out.append((text[pos:m.start()], m.group()))
        pos = m.end()
    if pos < len(text):
        out.append((text[pos:], ""))
    return out


_RECORDER = []


def Recorder():
    """Identity line processor that records what it is handed (a real LinePostProcessor subclass, made lazily)."""
    if not _RECORDER:
        from nunavut._postprocessors import LinePostProcessor

        class _Recorder(LinePostProcessor):
            def __init__(self):
                self.seen = []

            def __call__(self, t):
                self.seen.append(tuple(t))
                return t
        _RECORDER.append(_Recorder)
    return _RECORDER[0]()


def make_pps(kind):
    from nunavut._postprocessors import TrimTrailingWhitespace, LimitEmptyLines
    if kind == "ident":
        return [Recorder()]
    if kind == "trim":
        return [TrimTrailingWhitespace()]
    if kind.startswith("lim") and "_" not in kind:
        return [LimitEmptyLines(int(kind[3:]))]
    if kind.startswith("trim_lim"):
        return [TrimTrailingWhitespace(), LimitEmptyLines(int(kind[8:]))]
    if kind.startswith("lim") and kind.endswith("_trim"):
        return [LimitEmptyLines(int(kind[3:-5])), TrimTrailingWhitespace()]
    raise KeyError(kind)


def reference(text, kind):
    res = io.StringIO()
    for ln in split_lines(text):
        pass
    pps = make_pps(kind)
    for ln in split_lines(text):
        for pp in pps:
            ln = pp(ln)
        res.write(ln[0])
        res.write(ln[1])
    return res.getvalue()


def direct_contracts(text, kind, out, rec=None):
    """Contracts evaluated on the output alone (independent of the real processors' behaviour in the reference)."""
    lines = split_lines(text)
    if kind == "ident":
        if out != text:
            return "identity: file differs from concatenated output"
        if rec is not None and rec != lines:
            return "identity: processor was handed %r instead of %r" % (rec[:6], lines[:6])
        return None
    if kind == "trim":
        olines = split_lines(out)
        # trimming may empty a final unterminated line completely; then it vanishes from the output split
        if len(olines) != len(lines):
            if not (len(olines) == len(lines) - 1 and lines[-1][1] == "" and lines[-1][0].strip() == ""):
                return "trim: number of lines changed %d -> %d" % (len(lines), len(olines))
            olines = olines + [("", "")]
        for (l, t), (ol, ot) in zip(lines, olines):
            if ot != t:
                return "trim: terminator %r became %r" % (t, ot)
            if not l.startswith(ol):
                return "trim: line %r became %r (not a prefix)" % (l, ol)
            removed = l[len(ol):]
            if removed and not removed.isspace():
                return "trim: removed non-whitespace %r" % removed
            if ol != ol.rstrip():   # whitespace = str.isspace(), Python's (and the regex engine's \s) definition
                return "trim: trailing whitespace left in %r" % ol
        return None
    m = re.fullmatch(r"(?:trim_)?lim(\d+)", kind)
    if m:
        n = int(m.group(1))
        trimmed = kind.startswith("trim_")
        inp = [((l.rstrip() if trimmed else l), t) for l, t in lines]
        if trimmed:  # rstrip is the widest definition; whitespace-only handling is judged by the 'trim' contract
            if any(l != l0.rstrip(" \t") and l != l0 for (l, _), (l0, _) in zip(inp, lines)):
                return None
        olines = split_lines(out)
        run = 0
        for ol, ot in olines:
            run = run + 1 if ol == "" else 0
            if run > n:
                return "limit: more than %d consecutive empty lines in output" % n
        want = [(l, t) for l, t in inp if l != ""]
        got = [(l, t) for l, t in olines if l != ""]
        if want != got:
            return "limit: non-empty lines changed: %r -> %r" % (want[:5], got[:5])
        return None
    return None


def run_real(chunks, kind):
    from nunavut.jinja import CodeGenerator
    out = io.StringIO()
    pps = make_pps(kind)
    CodeGenerator._generate_with_line_buffer(out, iter(chunks), pps)
    return out.getvalue(), (pps[0].seen if kind == "ident" else None)


def classify(chunks):
    ne = [c for c in chunks if c != ""]
    if any(a.endswith("\r") and b.startswith("\n") for a, b in zip(ne, ne[1:])):
        return "crlf-split-across-chunks"
    return None


def cut(text, mask):
    chunks, cur = [], ""
    n = len(text)
    for i, ch in enumerate(text):
        cur += ch
        if i < n - 1 and (mask >> i) & 1:
            chunks.append(cur)
            cur = ""
    chunks.append(cur)
    return chunks


KINDS_Q = ["ident", "trim", "lim0", "lim1", "lim2", "trim_lim1", "lim1_trim", "trim_lim0"]
ALPH = ["a", " ", "\t", "\r", "\n"]


def check_case(text, chunks, kind, res):
    res["evaluations"] += 1
    try:
        out, rec = run_real(chunks, kind)
    except Exception as e:  # the real loop must not fail on any schedule
        res["refs"].append((None, "exception %r" % e, dict(text=text, chunks=chunks, kind=kind)))
        return
    exp = reference(text, kind)
    if out != exp:
        mech = classify(chunks)
        res["mech_counts"][mech] = res["mech_counts"].get(mech, 0) + 1
        if res["mech_counts"][mech] <= 3:
            res["refs"].append((mech, "chunked output differs from line-by-line application",
                                dict(text=text, chunks=chunks, kind=kind, got=out, expected=exp)))
        return
    res["agree"] += 1
    why = direct_contracts(text, kind, out, rec)
    res["contract_evals"] += 1
    if why:
        mech = classify(chunks)
        res["mech_counts"][mech] = res["mech_counts"].get(mech, 0) + 1
        if res["mech_counts"][mech] <= 3:
            res["refs"].append((mech, why, dict(text=text, chunks=chunks, kind=kind, got=out)))


def exhaustive_shard(args):
    first, maxlen, kinds = args
    res = dict(evaluations=0, agree=0, contract_evals=0, mech_counts={}, refs=[], schedules=set(), texts=0)
    for n in range(1, maxlen + 1):
        for rest in itertools.product(ALPH, repeat=n - 1):
            text = first + "".join(rest)
            res["texts"] += 1
            for mask in range(1 << (n - 1)):
                chunks = cut(text, mask)
                res["schedules"].add((n, mask))
                for kind in kinds:
                    check_case(text, chunks, kind, res)
                    if len(res["refs"]) > 60:
                        return res
    return res


RICH = ["a", "b", " ", " ", "\t", "\r", "\n", "\n", "\r\n", "\r\n", "\v", "\f", " ", " ", "é", "漢", "x y", "\x1c", "\x85",
        "<", ">", "&", "'", '"', "<td class=\"n\">", "&amp;"]


def random_shard(args):
    seed, ncases = args
    r = random.Random("c15/%s" % seed)
    res = dict(evaluations=0, agree=0, contract_evals=0, mech_counts={}, refs=[], schedules=set(), texts=0)
    for _ in range(ncases):
        n = r.choice([r.randint(0, 12), r.randint(10, 60), r.randint(50, 400)])
        text = "".join(r.choice(RICH) for _ in range(n))
        if r.random() < 0.3:
            text = re.sub(r"(?<!\r)\n", "\r\n", text)
        res["texts"] += 1
        for _ in range(4):
            chunks = []
            pos = 0
            mode = r.random()
            while pos < len(text):
                step = 1 if mode < 0.2 else r.randint(1, 3) if mode < 0.6 else r.randint(1, 40)
                if r.random() < 0.15 and "\r\n" in text[pos:pos + 40]:  # aim inside a CRLF
                    step = text.index("\r\n", pos) - pos + 1
                chunks.append(text[pos:pos + step])
                pos += step
                if r.random() < 0.1:
                    chunks.append("")
            if not chunks or r.random() < 0.1:
                chunks.append("")
            res["schedules"].add((len(text), tuple(len(c) for c in chunks)))
            if r.random() < 0.35:
                # what the engine yields is not always an exact str: under autoescape single expressions arrive as Markup, a str
                # subclass whose + and join escape the other operand; the text of a chunk is what counts
                from nunavut.jinja.jinja2 import Markup
                chunks = [Markup(c) if r.random() < 0.5 else c for c in chunks]
                res["markup_schedules"] = res.get("markup_schedules", 0) + 1
            for kind in (KINDS_Q + ["lim3", "trim_lim2", "lim0_trim"]):
                check_case(text, chunks, kind, res)
        if len(res["refs"]) > 40:
            break
    return res


def copy_path_cases(ctx):
    """SupportGenerator._copy_header_using_line_pps: copied files must obey the same rule (file -> file)."""
    from nunavut.jinja import SupportGenerator
    import pathlib
    d = ctx.sub("copy")
    r = random.Random("c15copy/%s" % ctx.seed)
    texts = ["", "a", "a\n", "a\nb", "a \n\n\n\nb  ", "x\r\ny\r\n", "x\r\ny", " \n \n", "\n", "\n\n\nq", "tab\t\nend\t"]
    for _ in range(ctx.pick(150, 3000)):
        texts.append("".join(r.choice(["a", "b", " ", "\t", "\n", "\n", "\r\n", "é", "#x", "\r", "\r", "\xa0", "\u2003", "\x0c", "\x0b", "\x1c", "\u2028", "\x85"])
                             for _ in range(r.randint(0, 40))))
    for i, text in enumerate(texts):
        for kind in ["ident", "trim", "lim1", "trim_lim1"]:
            src = pathlib.Path(d) / "src.h"
            dst = pathlib.Path(d) / "dst.h"
            with open(src, "w", encoding="utf-8", newline="") as f:
                f.write(text)
            ctx.count("evaluations")
            ctx.count("copy_cases")
            try:
                SupportGenerator._copy_header_using_line_pps(None, src, dst, make_pps(kind))
                with open(dst, "r", encoding="utf-8", newline="") as f:
                    out = f.read()
            except Exception as e:
                ctx.refute(None, "copy path raised %r" % e, dict(text=text, kind=kind))
                continue
            exp = reference(text, kind)
            if out != exp:
                mech = None
                if text and not text.endswith("\n"):
                    mech = "copy-last-line-without-newline"
                elif "\r\n" in text and out == exp.replace("\r\n", "\n"):
                    mech = "copy-crlf-translated"
                ctx.refute(mech, "copied support file differs from line-by-line application",
                           dict(text=text, kind=kind, got=out, expected=exp))
            else:
                ctx.count("copy_agree")
                ctx.distinct(("copy", common.sha(text), kind))


def real_schedule_cases(ctx):
    """Tee the chunk stream Jinja really produces for real templates, check the file written by the real call site,
    then replay the same text with re-cut schedules."""
    import nunavut
    import nunavut.jinja
    from nunavut.lang import LanguageContextBuilder
    from nunavut._postprocessors import TrimTrailingWhitespace, LimitEmptyLines
    from vlib import dsdlgen
    d = ctx.sub("real")
    roots = dsdlgen.write_corpus(os.path.join(d, "dsdl"), which=["cov"])
    import pydsdl
    types = pydsdl.read_namespace(os.path.join(d, "dsdl", "cov"), [], allow_unregulated_fixed_port_id=True)
    recorded = []
    current = ["trim_lim2"]
    orig = nunavut.jinja.CodeGenerator.__dict__["_generate_with_line_buffer"].__func__

    def tee(cls, output_file, template_gen, line_pps):
        chunks = list(template_gen)
        # the processors the call site really applies (the generator adds the language's defaults to the caller's list)
        desc = [("trim",) if isinstance(pp, TrimTrailingWhitespace) else ("lim", pp._max_empty_lines) if isinstance(pp, LimitEmptyLines) else ("other", type(pp).__name__)
                for pp in line_pps]
        recorded.append((output_file.name, chunks, (current[0], desc)))
        return orig(cls, output_file, iter(chunks), line_pps)
    nunavut.jinja.CodeGenerator._generate_with_line_buffer = classmethod(tee)
    try:
        for lang in ["c", "py"] if ctx.quick else ["c", "cpp", "py", "html"]:
            lctx = LanguageContextBuilder(include_experimental_languages=True).set_target_language(lang).create()
            out = os.path.join(d, "out_" + lang)
            ns = nunavut.build_namespace_tree(types, os.path.join(d, "dsdl", "cov"), out, lctx)
            # explicit processors: trim + limit 2 (what nnvg --pp-trim-trailing-whitespace --pp-max-emptylines 2 installs)
            gen = nunavut.jinja.DSDLCodeGenerator(ns, post_processors=[TrimTrailingWhitespace(), LimitEmptyLines(2)])
            gen.generate_all()
            sup = nunavut.jinja.SupportGenerator(ns, post_processors=[TrimTrailingWhitespace(), LimitEmptyLines(2)])
            sup.generate_all()
        # one generator writing many files whose texts begin and end with empty / whitespace-only lines: every file is the
        # complete text of its own rendering, whatever the same generator wrote before it
        import pathlib
        tpl = os.path.join(d, "tpl_blank")
        os.makedirs(tpl, exist_ok=True)
        with open(os.path.join(tpl, "Any.j2"), "w", newline="") as f:
            f.write("\n \n{{ T.full_name }}   \n\t\n\n\n{{ T.version.major }}\n{% if T.version.minor % 2 %}\n{% endif %}\n \n")
        lctx = LanguageContextBuilder(include_experimental_languages=True).set_target_language("c").create()
        for kind in ("trim_lim1", "lim2", "trim_lim0", "lim1_trim"):
            current[0] = kind
            ns = nunavut.build_namespace_tree(types, os.path.join(d, "dsdl", "cov"), os.path.join(d, "out_blank_" + kind), lctx)
            gen = nunavut.jinja.DSDLCodeGenerator(ns, templates_dir=pathlib.Path(tpl), post_processors=make_pps(kind))
            gen.generate_all()
            ctx.count("real_generators_writing_files_with_blank_edges")
    finally:
        nunavut.jinja.CodeGenerator._generate_with_line_buffer = classmethod(orig)
    r = random.Random("c15real/%s" % ctx.seed)
    for path, chunks, kind_used in recorded:
        text = "".join(chunks)
        ctx.count("real_files")
        ctx.count("real_chunks", len(chunks))
        with open(path, "r", encoding="utf-8", newline="") as f:
            written = f.read()
        ctx.count("evaluations")
        why = None
        # every file is the complete text of its own rendering: the processors are applied to it as if it were the only file
        fresh = [TrimTrailingWhitespace() if x[0] == "trim" else LimitEmptyLines(x[1]) for x in kind_used[1] if x[0] in ("trim", "lim")]
        if len(fresh) == len(kind_used[1]):
            ref = io.StringIO()
            for ln in split_lines(text):
                for pp in fresh:
                    ln = pp(ln)
                ref.write(ln[0] + ln[1])
            ctx.count("real_files_compared_with_fresh_processors")
            if written != ref.getvalue():
                why = "file written by the real call site differs from the processors applied line by line to its own complete text (%s)" % (kind_used,)
        if any(l != l.rstrip() for l, t in split_lines(written)):
            why = "real call site left trailing whitespace"
        if [l for l, t in split_lines(written) if l] != [l.rstrip() for l, t in split_lines(text) if l.rstrip()]:
            why = "real call site altered/dropped a non-empty line"
        if why:
            ctx.refute(None, why, dict(path=os.path.relpath(path, d)))
        for k in range(ctx.pick(3, 20)):
            pos, cuts = 0, []
            while pos < len(text):
                step = r.choice([1, 2, 7, 64, 1000, 5000])
                cuts.append(text[pos:pos + step])
                pos += step
            res = dict(evaluations=0, agree=0, contract_evals=0, mech_counts={}, refs=[])
            check_case(text, cuts, "trim_lim2", res)
            ctx.count("evaluations", res["evaluations"])
            ctx.count("real_replays_agree", res["agree"])
            for mech, what, wit in res["refs"]:
                wit = dict(wit, text=wit["text"][:2000], chunks="(%d chunks)" % len(cuts), got=None, expected=None, path=os.path.relpath(path, d))
                ctx.refute(mech, "real template text: " + what, wit)
    ctx.extra["real_template_files"] = len(recorded)


def run(ctx):
    ctx.rule = ("case = (text, chunk schedule, processor list); texts over {a,space,tab,CR,LF} enumerated exhaustively up to "
                "length L with ALL 2^(n-1) chunkings, plus random rich-alphabet texts (VT, FF, NBSP, U+2028, CRLF) with random "
                "schedules aimed inside CRLF, plus real template output re-cut; distinct = distinct (text length, schedule) "
                "shapes for which the real loop and the reference were compared")
    if ctx.replay:
        w = ctx.replay["witness"]
        res = dict(evaluations=0, agree=0, contract_evals=0, mech_counts={}, refs=[])
        check_case(w["text"], w["chunks"], w["kind"], res)
        ctx.count("evaluations", res["evaluations"])
        for mech, what, wit in res["refs"]:
            ctx.refute(mech, what, wit)
        ctx.distinct("replay"); ctx.distinct("replay2")
        return
    maxlen = ctx.pick(5, 7)
    shards = [(a, maxlen, KINDS_Q) for a in ALPH]
    if not ctx.quick:
        shards = [(a + b, maxlen - 1, KINDS_Q) for a in ALPH for b in ALPH] + [(a, 1, KINDS_Q) for a in ALPH]
    results = common.pmap(exhaustive_shard, shards)
    results += common.pmap(random_shard, [(ctx.seed * 1000 + i, ctx.pick(120, 3000)) for i in range(16)])
    # the empty text
    res0 = dict(evaluations=0, agree=0, contract_evals=0, mech_counts={}, refs=[], schedules={(0, 0)}, texts=1)
    for kind in KINDS_Q:
        check_case("", [], kind, res0)
        check_case("", ["", ""], kind, res0)
    results.append(res0)
    shapes = set()
    for res in results:
        for k in ("evaluations", "agree", "contract_evals", "texts"):
            ctx.count(k, res[k])
        shapes |= res["schedules"]
        for mech, what, wit in res["refs"]:
            ctx.refute(mech, what, wit)
        for mech, n in res["mech_counts"].items():
            ctx.count("refuted[%s]" % mech, n)
    ctx.distinct_many(shapes)
    ctx.extra["distinct_schedule_shapes"] = len(shapes)
    ctx.extra["exhaustive_bounds"] = "alphabet %r, text length <= %d, all chunkings, processor lists %s" % (ALPH, maxlen, KINDS_Q)
    copy_path_cases(ctx)
    real_schedule_cases(ctx)
    ctx.sample({"text": "a \r\n\n\nb", "chunks": ["a \r", "\n\n", "\nb"], "kind": "trim_lim1",
                "expected": reference("a \r\n\n\nb", "trim_lim1")})
    ctx.sample({"text": " \t\n", "chunks": [" ", "\t\n"], "kind": "trim", "expected": "\n"})
    ctx.require("agree", 10000)
    ctx.require("copy_cases", 40)
    ctx.require("real_files", 10)
    ctx.assumptions += ["line terminators are LF and CRLF only (the code's own definition); lone CR, VT, FF, U+2028 are ordinary characters",
                        "whitespace for trimming is str.isspace() (identical to the regex engine's \\s for str patterns)"]
