#!/usr/bin/env python3
"""Seed sweep on the current tree: tools/sweep.py [--tier=quick] [--seeds=1,2,3] [--jobs=3] [ID ...]
Runs ./check for every (property, seed), evidence redirected to a scratch directory, and prints one line per run."""
import concurrent.futures, os, subprocess, sys, tempfile, time, shutil
HERE = os.path.dirname(os.path.dirname(os.path.abspath(__file__)))
args = [a for a in sys.argv[1:] if not a.startswith("--")]
opts = dict(a[2:].split("=", 1) for a in sys.argv[1:] if a.startswith("--"))
ids = args or ["C%02d" % i for i in range(1, 21)]
seeds = [int(x) for x in opts.get("seeds", "1,2,3").split(",")]
tier = opts.get("tier", "quick")
evd = tempfile.mkdtemp(prefix="nvsweep_")


def one(job):
    pid, seed = job
    t0 = time.time()
    env = dict(os.environ, VERIF_SEED=str(seed), VERIF_EVIDENCE_DIR=os.path.join(evd, "%s_%d" % (pid, seed)))
    try:
        p = subprocess.run([os.path.join(HERE, "check"), pid, "--tier", tier], capture_output=True, text=True, env=env, timeout=int(opts.get("timeout", "3000")))
        rc, out = p.returncode, p.stdout
    except subprocess.TimeoutExpired as e:
        rc, out = -9, (e.stdout or b"").decode("utf-8", "replace") if isinstance(e.stdout, bytes) else (e.stdout or "")
    lines = [l for l in out.splitlines() if l.startswith(("VIOLATION", "  what", "INCONCLUSIVE"))][:6]
    return pid, seed, rc, time.time() - t0, lines


with concurrent.futures.ThreadPoolExecutor(int(opts.get("jobs", "3"))) as ex:
    for pid, seed, rc, dt, lines in ex.map(one, [(p, s) for s in seeds for p in ids]):
        print("%s seed=%d rc=%d %.0fs" % (pid, seed, rc, dt), flush=True)
        for l in lines:
            print("    " + l[:260], flush=True)
shutil.rmtree(evd, ignore_errors=True)
