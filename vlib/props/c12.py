"""C12 - regeneration over existing output is safe for every history of runs.

Monitor: histories of real `nnvg` invocations into ONE output directory are executed (with CAP_DAC_OVERRIDE dropped so that
mode bits are enforced although the checker runs as root) and every step is logged as
  (flags, exit status, {path: (sha256, mode)} before, {path: (sha256, mode)} after);
an offline checker compares each step with a reference map obtained from a fresh run of the same flags into an empty
directory: a successful overwriting step leaves every generated file byte-identical to the reference and with the requested
permission bits; a --no-overwrite step never changes content or mode of any pre-existing file and fails when a target existed.
"""
import json
import os
import random
import shutil
import stat

from vlib import common, dsdlgen

LEVEL = "exploration"
MANIFEST = {
    "category": "exploration",
    "technique": "offline checker over recorded histories of real CLI runs (per-step before/after snapshots with sha256 + mode) against per-flag-set reference runs; mode bits made real by dropping CAP_DAC_OVERRIDE",
    "text": "Random histories (2-6 steps) of nnvg runs into one directory vary --file-mode (0o444, 0o644, 0o600, 0o400, 0o664, 0o640, 0, 0o200, 0o004), "
            "--no-overwrite, --omit-serialization-support, --generate-support, line post-processor options and the set of types, for c, cpp, "
            "py and html; directories are pre-populated with foreign files, longer and shorter read-only files at generated paths and "
            "read-only support headers. Every step runs under setpriv --bounding-set=-dac_override,-dac_read_search (canary: a 0444 "
            "file must refuse writing there). The recorded event log is checked offline against reference maps."
            " File modes include the boundary value 0 and modes without owner read permission.",
    "note": "Not judged: files the step does not generate; new files created before a --no-overwrite conflict is detected; error wording.",
}
MANIFEST["text"] += ' Pre-population also covers CRLF copies of an earlier output and directories holding nothing but foreign namespace files; some histories run a program (--pp-run-program) that replaces every generated file.'

SETPRIV = ["setpriv", "--bounding-set=-dac_override,-dac_read_search"]
MODES = [0o444, 0o644, 0o600, 0o400, 0o664, 0o640, 0o000, 0o200, 0o004]   # incl. the boundary value 0 and modes without owner read


def priv(cmd):
    return SETPRIV + cmd


def canary(ctx):
    d = ctx.sub("canary")
    p = os.path.join(d, "ro.txt")
    with open(p, "w") as f:
        f.write("x")
    os.chmod(p, 0o444)
    r = common.run(priv([common.PY, "-c", "open(%r,'w').write('y')" % p]))
    if r.returncode == 0 or open(p).read() != "x":
        ctx.inconclusive_because("permission canary: a 0444 file was writable under setpriv (mode bits not enforced)")
        return False
    ctx.count("canary_permissions_enforced")
    return True


def snap(root):
    out = {}
    for dp, dn, fn in os.walk(root):
        for f in fn:
            p = os.path.join(dp, f)
            st = os.lstat(p)
            try:
                h = common.sha(open(p, "rb").read())
            except OSError:
                h = "unreadable"
            out[os.path.relpath(p, root)] = (h, stat.S_IMODE(st.st_mode))
    return out


def flag_args(flags):
    a = []
    if flags.get("omit"):
        a.append("--omit-serialization-support")
    if flags.get("gs"):
        a += ["--generate-support", flags["gs"]]
    if flags.get("trim"):
        a.append("--pp-trim-trailing-whitespace")
    if flags.get("maxempty") is not None:
        a += ["--pp-max-emptylines", str(flags["maxempty"])]
    if flags.get("nst"):
        a.append("--generate-namespace-types")
    return a


def content_key(flags):
    """Flags that determine file *content* and the set of generated files."""
    return json.dumps({k: flags.get(k) for k in ("omit", "gs", "trim", "maxempty", "nst", "dsdl", "pprun")}, sort_keys=True)


def nnvg_cmd(sb, lang, flags, out):
    root = os.path.join(sb, flags.get("dsdl", "dsdl"), "cov")
    a = [common.PY, "-m", "nunavut", "-l", lang, "--experimental-languages", "--allow-unregulated-fixed-port-id", "-O", out, root] + flag_args(flags)
    if flags.get("pprun"):
        # a program run on every generated file ("before the file is set to read-only"): it replaces the file by a new one of the same
        # content, as formatters that write a temporary file and rename it do
        a += ["--pp-run-program", os.path.join(sb, "rewrite.sh")]
    if flags.get("mode") is not None:
        a += ["--file-mode", oct(flags["mode"])]
    if flags.get("no_overwrite"):
        a.append("--no-overwrite")
    return a


def run_history(args):
    """Executes one history and returns the recorded event log (no judgement here)."""
    sb, lang, hid, steps, prepop = args
    out = os.path.join(sb, "out_h%d" % hid)
    os.makedirs(out)
    log = dict(id=hid, lang=lang, prepopulated=prepop, steps=[])
    refs = {}
    # references first (fresh directory per distinct content key)
    for s in steps:
        ck = content_key(s)
        if ck not in refs:
            rd = os.path.join(sb, "ref_h%d_%d" % (hid, len(refs)))
            r = common.run(priv(nnvg_cmd(sb, lang, dict(s, mode=None, no_overwrite=False), rd)), env=common.child_env(), timeout=900)
            refs[ck] = dict(rc=r.returncode, files={k: v[0] for k, v in snap(rd).items()} if r.returncode == 0 else None, stderr=r.stderr[-400:])
            shutil.rmtree(rd, ignore_errors=True)
    # pre-population
    if prepop == "crlf":
        # the directory holds the output of the first step's command line, converted to CRLF since (unix2dos, a checkout with autocrlf)
        common.run(priv(nnvg_cmd(sb, lang, dict(steps[0], mode=None, no_overwrite=False), out)), env=common.child_env(), timeout=900)
        for dp, dn, fn in os.walk(out):
            for f in fn:
                p = os.path.join(dp, f)
                m = stat.S_IMODE(os.lstat(p).st_mode)
                data = open(p, "rb").read().replace(b"\r\n", b"\n").replace(b"\n", b"\r\n")
                os.chmod(p, 0o644)
                with open(p, "wb") as fh:
                    fh.write(data)
                os.chmod(p, m)
    elif prepop == "nsfiles":
        first = refs[content_key(steps[0])]["files"] or {}
        for rel in sorted(first):
            if os.path.basename(rel) in ("__init__.py", "index.html"):
                p = os.path.join(out, rel)
                os.makedirs(os.path.dirname(p), exist_ok=True)
                with open(p, "w") as f:
                    f.write("# written by hand, not generated\n")
                os.chmod(p, 0o644)
    elif prepop:
        first = refs[content_key(steps[0])]["files"] or {}
        rr = random.Random("prepop/%s" % hid)
        for rel in sorted(first):
            c = rr.random()
            if c < 0.35:
                p = os.path.join(out, rel)
                os.makedirs(os.path.dirname(p), exist_ok=True)
                with open(p, "w") as f:
                    f.write(rr.choice(["short\n", "FOREIGN CONTENT " * 4000]))   # shorter and much longer than what is generated
                os.chmod(p, rr.choice([0o444, 0o400, 0o644, 0o640]))
        with open(os.path.join(out, "foreign_unrelated.txt"), "w") as f:
            f.write("keep me")
        os.chmod(os.path.join(out, "foreign_unrelated.txt"), 0o400)
    for s in steps:
        before = snap(out)
        r = common.run(priv(nnvg_cmd(sb, lang, s, out)), env=common.child_env(), timeout=900)
        after = snap(out)
        log["steps"].append(dict(flags=s, rc=r.returncode, stderr=r.stderr[-500:], before=before, after=after, ref=refs[content_key(s)]))
    subprocess_chmod(out)
    shutil.rmtree(out, ignore_errors=True)
    return log


def subprocess_chmod(path):
    common.run(["chmod", "-R", "u+rwX", path])


def check_history(ctx, log):
    """The offline checker over one recorded history."""
    hid, lang = log["id"], log["lang"]
    for i, st in enumerate(log["steps"]):
        flags, rc, before, after, ref = st["flags"], st["rc"], st["before"], st["after"], st["ref"]
        ctx.count("evaluations")
        ctx.count("steps_checked")
        want_mode = flags["mode"] if flags.get("mode") is not None else 0o444
        witness = dict(history=hid, lang=lang, step=i, prepopulated=log["prepopulated"], flags_so_far=[s["flags"] for s in log["steps"][: i + 1]], rc=rc)
        if ref["rc"] != 0:
            ctx.count("reference_run_failed")
            lst = ctx.extra.setdefault("reference_run_failures", [])
            if len(lst) < 5:
                lst.append(dict(flags={k: v for k, v in flags.items() if v}, stderr=(ref.get("stderr") or "")[-300:]))
            continue
        targets = ref["files"]
        if flags.get("no_overwrite"):
            conflict = [p for p in targets if p in before]
            # never change content or mode of anything that existed before
            changed = [(p, before[p], after.get(p)) for p in before if after.get(p) != before[p]]
            if changed:
                ctx.refute(None, "--no-overwrite changed a pre-existing file (content or mode)", dict(witness, changed=[(p, b[0][:10], oct(b[1]), (a[0][:10], oct(a[1])) if a else None) for p, b, a in changed][:5]))
                continue
            if conflict and rc == 0:
                ctx.refute(None, "--no-overwrite reported success although %d target files already existed" % len(conflict), dict(witness, existing=conflict[:5]))
                continue
            if not conflict:
                if rc != 0:
                    ctx.refute(None, "--no-overwrite failed although no target existed", dict(witness, stderr=st["stderr"]))
                    continue
                bad = [p for p in targets if after.get(p, (None,))[0] != targets[p]]
                if bad:
                    ctx.refute(None, "--no-overwrite run into free paths produced wrong content", dict(witness, files=bad[:5]))
                    continue
            ctx.count("no_overwrite_steps_ok")
            ctx.count("no_overwrite_conflicts_reported" if conflict else "no_overwrite_without_conflict")
            ctx.distinct((hid, i))
            continue
        if rc != 0:
            ctx.refute(None, "overwriting run failed over existing output", dict(witness, stderr=st["stderr"]))
            continue
        wrong = [p for p in targets if after.get(p, (None,))[0] != targets[p]]
        if wrong:
            ctx.refute(None, "after a successful run %d generated files differ from what a run into an empty directory produces" % len(wrong),
                       dict(witness, files=wrong[:5], existed_before=[p in before for p in wrong[:5]]))
            continue
        wrongmode = [(p, oct(after[p][1])) for p in targets if after[p][1] != want_mode]
        if wrongmode:
            ctx.refute(None, "generated files do not carry the requested permission bits %s" % oct(want_mode), dict(witness, files=wrongmode[:5], existed_before=[p in before for p, _ in wrongmode[:5]]))
            continue
        if any(p in before for p in targets):
            ctx.count("overwrite_steps_over_existing_ok")
            if any(p in before and not (before[p][1] & 0o200) for p in targets):
                ctx.count("overwrite_steps_over_readonly_ok")
        ctx.count("overwrite_steps_ok")
        ctx.distinct((hid, i))


READABLE_MODES = [m for m in MODES if m & 0o400]


def make_history(R):
    n = R.randint(2, 6)
    steps = []
    # histories that run a program on every generated file keep to modes the owner can read: the program is handed the file as the
    # earlier run left it (made writable, not readable), and a formatter that cannot read its input fails for reasons of its own
    with_program = R.random() < 0.25
    for i in range(n):
        f = dict(mode=R.choice([None] + (READABLE_MODES if with_program else MODES)), no_overwrite=R.random() < 0.25, omit=R.random() < 0.3, gs=R.choice([None, None, "always", "never", "as-needed"]),
                 trim=R.random() < 0.2, maxempty=R.choice([None, None, 0, 2]), nst=R.random() < 0.15, dsdl=R.choice(["dsdl", "dsdl", "dsdl_small"]),
                 pprun=with_program and R.random() < 0.7)
        steps.append(f)
    return steps


def run(ctx):
    ctx.rule = ("case = history of 2-6 nnvg invocations into one directory (flags vary per step), optionally pre-populated; "
                "distinct = (history, step) pairs judged conforming; non-trivial = the step ran over existing files")
    if not canary(ctx):
        return
    R = random.Random("c12/%s" % ctx.seed)
    sb = ctx.sub("sb")
    dsdlgen.write_corpus(os.path.join(sb, "dsdl"), which=["cov"])
    # a smaller variant of the namespace (fewer types and shorter definitions: files shrink / disappear between steps)
    dsdlgen.write_corpus(os.path.join(sb, "dsdl_small"), which=["cov"])
    for n in ("Arrays.1.0.dsdl", "UArrays.1.0.dsdl", "LongArr.1.0.dsdl", "Odd.1.0.dsdl"):
        os.unlink(os.path.join(sb, "dsdl_small", "cov", n))
    with open(os.path.join(sb, "dsdl_small", "cov", "Prims.1.0.dsdl"), "w") as f:
        f.write("uint8 u8\n@sealed\n")
    with open(os.path.join(sb, "rewrite.sh"), "w") as f:
        f.write('#!/bin/sh\ncat "$1" > "$1.rewritten" && mv -f "$1.rewritten" "$1"\n')
    os.chmod(os.path.join(sb, "rewrite.sh"), 0o755)
    nh = ctx.pick(36, 300)
    jobs = []
    for h in range(nh):
        lang = ["c", "py", "cpp", "html"][h % 4] if not ctx.quick else ["c", "py", "c", "cpp", "py", "html"][h % 6]
        jobs.append((sb, lang, h, make_history(R), R.choice([False, True, True, "crlf"])))
    # a few fixed histories that every run contains
    fixed = [
        [dict(), dict(mode=0o644), dict(no_overwrite=True), dict(mode=0o400), dict(), dict(omit=True, mode=0o600)],
        [dict(), dict(omit=True), dict(dsdl="dsdl_small"), dict()],
        [dict(mode=0o644), dict(mode=0o644), dict(mode=0o640), dict(mode=0o640)],
        [dict(mode=0), dict(), dict(mode=0), dict(mode=0o644), dict(mode=0)],
        [dict(), dict(mode=0o200), dict(mode=0), dict(no_overwrite=True, mode=0)],
        [dict(no_overwrite=True), dict(no_overwrite=True, mode=0o600), dict(mode=0o600, no_overwrite=True, dsdl="dsdl_small")],
        [dict(pprun=True), dict(pprun=True, mode=0o400), dict(pprun=True, mode=0o644), dict(pprun=True)],
        [dict(pprun=True, mode=0o600), dict(mode=0o444, pprun=True, no_overwrite=True), dict(pprun=True, mode=0)],
    ]
    for i, steps in enumerate(fixed):
        for lang in ("c", "py"):
            jobs.append((sb, lang, nh + len(fixed) * ["c", "py"].index(lang) + i, [dict(dict(mode=None, no_overwrite=False, omit=False, gs=None, trim=False, maxempty=None, nst=False, dsdl="dsdl", pprun=False), **s) for s in steps], i % 2 == 1))
    # the directory holds nothing but (foreign) namespace files where the run wants to put its own: --no-overwrite must refuse and keep them
    base_step = dict(mode=None, no_overwrite=False, omit=False, gs=None, trim=False, maxempty=None, nst=False, dsdl="dsdl", pprun=False)
    for k, lang in enumerate(("py", "py", "html")):
        jobs.append((sb, lang, nh + 1000 + k, [dict(base_step, no_overwrite=True, nst=(lang == "html"), mode=[None, 0o640, None][k]), dict(base_step, nst=(lang == "html"))], "nsfiles"))
    import concurrent.futures
    with concurrent.futures.ThreadPoolExecutor(12) as ex:
        logs = list(ex.map(run_history, jobs))
    for log in logs:
        ctx.count("histories")
        check_history(ctx, log)
    ex0 = logs[0]
    ctx.sample({"history": ex0["id"], "lang": ex0["lang"], "prepopulated": ex0["prepopulated"],
                "steps": [dict(flags=s["flags"], rc=s["rc"], files_before=len(s["before"]), files_after=len(s["after"])) for s in ex0["steps"]]})
    ctx.require("overwrite_steps_over_existing_ok", 15)
    ctx.require("overwrite_steps_over_readonly_ok", 8)
    ctx.require("no_overwrite_conflicts_reported", 5)
    ctx.require("no_overwrite_without_conflict", 1)
    ctx.require("canary_permissions_enforced", 1)
