"""E2 - executable reference model of the DSDL wire format over the PyDSDL AST, value generators, and the binary
"value stream" used to move in-memory values between the checker and the C/C++ harnesses.

Values:  bool -> bool, integers -> int, floats -> float, arrays -> list (utf8/byte arrays are lists of ints),
         structures -> {field name: value}, unions -> {selected field name: value}; delimited types like their inner type.
"""
import math
import struct

import pydsdl


class Invalid(Exception):
    """The value / representation is invalid under the specification. kind in {array_length, union_tag, delimiter_header}."""

    def __init__(self, kind, detail=""):
        super().__init__("%s %s" % (kind, detail))
        self.kind = kind


def inner(t):
    return t.inner_type if isinstance(t, pydsdl.DelimitedType) else t


# ------------------------------------------------------------------------------------------------ bit streams
class BitWriter:
    def __init__(self):
        self.v = 0      # little-endian bit string as an integer: bit i of the stream is bit i of v
        self.n = 0

    def put(self, value, nbits):
        if nbits:
            self.v |= (value & ((1 << nbits) - 1)) << self.n
            self.n += nbits

    def align(self, a):
        if a > 1 and self.n % a:
            self.n += a - self.n % a

    def bytes(self):
        self.align(8)
        return self.v.to_bytes(self.n // 8, "little")


class BitReader:
    """Reads with implicit zero extension beyond `limit` bits."""

    def __init__(self, data, start_bit=0, limit_bits=None):
        self.v = int.from_bytes(data, "little")
        self.total = len(data) * 8
        self.pos = start_bit
        self.limit = self.total if limit_bits is None else min(self.total, limit_bits)
        self.flags = set()      # structural facts about this decode, used only to classify known mechanisms

    def get(self, nbits):
        p = self.pos
        self.pos += nbits
        if p >= self.limit or nbits == 0:
            return 0
        avail = min(nbits, self.limit - p)
        return (self.v >> p) & ((1 << avail) - 1)

    def align(self, a):
        if a > 1 and self.pos % a:
            self.pos += a - self.pos % a


# ------------------------------------------------------------------------------------------------ floats
FMT = {16: ("<e", "<H"), 32: ("<f", "<I"), 64: ("<d", "<Q")}
FMAX = {16: 65504.0, 32: 3.4028234663852886e38, 64: 1.7976931348623157e308}


def float_to_bits(x, bits, saturated=True):
    """Bits of x in the IEEE format of `bits` after the cast-mode adjustment (round to nearest even)."""
    f, u = FMT[bits]
    if x != x:
        return {16: 0x7E00, 32: 0x7FC00000, 64: 0x7FF8000000000000}[bits]
    if math.isinf(x):
        return struct.unpack(u, struct.pack(f, x))[0]
    if abs(x) > FMAX[bits]:
        # beyond the largest finite value: saturated -> +-max, truncated -> +-inf.
        # (values between max and the rounding boundary round to max in either mode)
        half_ulp = {16: 16.0, 32: 2.0 ** 103, 64: 2.0 ** 970}[bits]
        if saturated or abs(x) < FMAX[bits] + half_ulp:
            x = math.copysign(FMAX[bits], x)
        else:
            x = math.copysign(math.inf, x)
    try:
        return struct.unpack(u, struct.pack(f, x))[0]
    except OverflowError:
        return struct.unpack(u, struct.pack(f, math.copysign(math.inf if not saturated else FMAX[bits], x)))[0]


def bits_to_float(b, bits):
    f, u = FMT[bits]
    return struct.unpack(f, struct.pack(u, b))[0]


def float_exact(x, bits):
    """True when x is exactly representable (or non-finite) in the given format: no rounding-direction leniency needed."""
    if x != x or math.isinf(x):
        return True
    if abs(x) > FMAX[bits]:
        return True   # handled by the cast mode, not by rounding (values inside the half-ulp band are avoided by the generator)
    try:
        return bits_to_float(float_to_bits(x, bits), bits) == x
    except OverflowError:
        return False


# ------------------------------------------------------------------------------------------------ normalisation
def normalize(t, v):
    """Cast-mode adjustment of an in-memory value (saturate / truncate / float range) = the value a decoder must return."""
    if isinstance(t, pydsdl.BooleanType):
        return bool(v)
    if isinstance(t, pydsdl.IntegerType):
        lo, hi = int(t.inclusive_value_range.min), int(t.inclusive_value_range.max)
        if t.cast_mode == pydsdl.PrimitiveType.CastMode.SATURATED:
            return max(lo, min(hi, int(v)))
        m = (1 << t.bit_length) - 1
        x = int(v) & m
        if isinstance(t, pydsdl.SignedIntegerType) and x >> (t.bit_length - 1):
            x -= 1 << t.bit_length
        return x
    if isinstance(t, pydsdl.FloatType):
        sat = t.cast_mode == pydsdl.PrimitiveType.CastMode.SATURATED
        return bits_to_float(float_to_bits(float(v), t.bit_length, sat), t.bit_length)
    if isinstance(t, pydsdl.ArrayType):
        return [normalize(t.element_type, e) for e in v]
    if isinstance(t, pydsdl.CompositeType):
        it = inner(t)
        if isinstance(it, pydsdl.UnionType):
            (k, x), = v.items()
            f = next(f for f in it.fields if f.name == k)
            return {k: normalize(f.data_type, x)}
        return {f.name: normalize(f.data_type, v[f.name]) for f in it.fields_except_padding}
    raise TypeError(t)


# ------------------------------------------------------------------------------------------------ encode
def _enc(w, t, v):
    if isinstance(t, pydsdl.VoidType):
        w.put(0, t.bit_length)
    elif isinstance(t, pydsdl.BooleanType):
        w.put(1 if v else 0, 1)
    elif isinstance(t, pydsdl.IntegerType):
        w.put(int(normalize(t, v)), t.bit_length)
    elif isinstance(t, pydsdl.FloatType):
        sat = t.cast_mode == pydsdl.PrimitiveType.CastMode.SATURATED
        w.put(float_to_bits(float(v), t.bit_length, sat), t.bit_length)
    elif isinstance(t, pydsdl.FixedLengthArrayType):
        if len(v) != t.capacity:
            raise Invalid("array_length", "fixed array of %d given %d" % (t.capacity, len(v)))
        for e in v:
            w.align(t.element_type.alignment_requirement)
            _enc(w, t.element_type, e)
    elif isinstance(t, pydsdl.VariableLengthArrayType):
        if len(v) > t.capacity:
            raise Invalid("array_length", "%d > %d" % (len(v), t.capacity))
        w.put(len(v), t.length_field_type.bit_length)
        for e in v:
            w.align(t.element_type.alignment_requirement)
            _enc(w, t.element_type, e)
    elif isinstance(t, pydsdl.CompositeType):
        if isinstance(t, pydsdl.DelimitedType):
            body = encode(t.inner_type, v)
            if HEADER_SLACK is not None:
                # what another version of the nested type would have sent: more bytes than this version knows (also beyond its
                # extent), or fewer (the receiver zero-extends); both are valid representations
                ext = t.extent // 8
                n = (ext - len(body) + 9) if HEADER_SLACK == "beyond" else (-len(body)) if HEADER_SLACK == "empty" else HEADER_SLACK.choice([0, 1, 2, ext - len(body) + 1, ext - len(body) + 1, ext - len(body) + 9, ext + 13, -1, -1, -2, -len(body)])
                if n > 0:
                    body = body + (bytes(HEADER_SLACK.getrandbits(8) for _ in range(n)) if not isinstance(HEADER_SLACK, str) else b"\xa5" * n)
                elif n < 0:
                    body = body[:max(0, len(body) + n)]
            w.put(len(body), t.delimiter_header_type.bit_length)
            for b in body:
                w.put(b, 8)
        else:
            _enc_body(w, t, v)
    else:
        raise TypeError(t)


def _enc_body(w, t, v):
    if isinstance(t, pydsdl.UnionType):
        if not isinstance(v, dict) or len(v) != 1:
            raise Invalid("union_tag", "not exactly one option")
        (k, x), = v.items()
        idx = next((i for i, f in enumerate(t.fields) if f.name == k), None)
        if idx is None:
            raise Invalid("union_tag", k)
        w.put(idx, t.tag_field_type.bit_length)
        f = t.fields[idx]
        w.align(f.data_type.alignment_requirement)
        _enc(w, f.data_type, x)
    else:
        for f in t.fields:
            w.align(f.data_type.alignment_requirement)
            _enc(w, f.data_type, None if isinstance(f, pydsdl.PaddingField) else v[f.name])
    w.align(t.alignment_requirement)


HEADER_SLACK = None


def encode(t, v):
    """Top-level serialization (no delimiter header for the outermost object)."""
    w = BitWriter()
    _enc_body(w, inner(t), v)
    return w.bytes()


def encode_other_version(r, t, v):
    """A valid representation in which nested delimited objects arrive longer or shorter than this version's own encoding."""
    global HEADER_SLACK
    HEADER_SLACK = r
    try:
        return encode(t, v)
    finally:
        HEADER_SLACK = None


# ------------------------------------------------------------------------------------------------ decode
def _dec(r, t):
    if isinstance(t, pydsdl.VoidType):
        r.get(t.bit_length)
        return None
    if isinstance(t, pydsdl.BooleanType):
        return bool(r.get(1))
    if isinstance(t, pydsdl.IntegerType):
        x = r.get(t.bit_length)
        if isinstance(t, pydsdl.SignedIntegerType) and x >> (t.bit_length - 1):
            x -= 1 << t.bit_length
        return x
    if isinstance(t, pydsdl.FloatType):
        return bits_to_float(r.get(t.bit_length), t.bit_length)
    if isinstance(t, pydsdl.FixedLengthArrayType):
        out = []
        for _ in range(t.capacity):
            r.align(t.element_type.alignment_requirement)
            out.append(_dec(r, t.element_type))
        return out
    if isinstance(t, pydsdl.VariableLengthArrayType):
        n = r.get(t.length_field_type.bit_length)
        if n > t.capacity:
            raise Invalid("array_length", "%d > %d" % (n, t.capacity))
        out = []
        for _ in range(n):
            r.align(t.element_type.alignment_requirement)
            out.append(_dec(r, t.element_type))
        return out
    if isinstance(t, pydsdl.CompositeType):
        if isinstance(t, pydsdl.DelimitedType):
            if r.pos + t.delimiter_header_type.bit_length > r.limit:
                r.flags.add("delimiter_header_beyond_end")
            size = r.get(t.delimiter_header_type.bit_length)
            start = r.pos
            remaining = max(0, (r.limit - start) // 8) if start <= r.limit else 0
            if size > remaining:
                raise Invalid("delimiter_header", "%d > remaining %d" % (size, remaining))
            sub = BitReader(b"", 0, 0)
            sub.v, sub.total, sub.pos, sub.limit = r.v, r.total, start, start + size * 8
            sub.flags = r.flags
            if size * 8 > t.inner_type.extent:
                r.flags.add("delimiter_header_larger_than_extent")
            v = _dec_body(sub, t.inner_type)
            r.pos = start + size * 8
            return v
        return _dec_body(r, t)
    raise TypeError(t)


def _dec_body(r, t):
    if isinstance(t, pydsdl.UnionType):
        tag = r.get(t.tag_field_type.bit_length)
        if tag >= len(t.fields):
            raise Invalid("union_tag", "%d >= %d" % (tag, len(t.fields)))
        f = t.fields[tag]
        r.align(f.data_type.alignment_requirement)
        v = {f.name: _dec(r, f.data_type)}
    else:
        v = {}
        for f in t.fields:
            r.align(f.data_type.alignment_requirement)
            x = _dec(r, f.data_type)
            if not isinstance(f, pydsdl.PaddingField):
                v[f.name] = x
    r.align(t.alignment_requirement)
    return v


def decode(t, data, flags=None):
    """Top-level deserialization with implicit zero extension / truncation. Returns (value, consumed_bytes_model)."""
    r = BitReader(bytes(data))
    if flags is not None:
        r.flags = flags
    v = _dec_body(r, inner(t))
    return v, min((r.pos + 7) // 8, len(data))


# ------------------------------------------------------------------------------------------------ comparison
def same(t, a, b, lenient_float=False):
    """Deep equality of two values of type t; NaN == NaN; lenient_float accepts adjacent representable values."""
    if isinstance(t, pydsdl.FloatType):
        if a != a or b != b:
            return a != a and b != b
        if a == b:
            return True
        if lenient_float and not (math.isinf(a) or math.isinf(b)):
            ba, bb = float_to_bits(a, t.bit_length), float_to_bits(b, t.bit_length)
            return (ba >> (t.bit_length - 1)) == (bb >> (t.bit_length - 1)) and abs(ba - bb) <= 1
        if lenient_float and (math.isinf(a) != math.isinf(b)):
            fin = b if math.isinf(a) else a
            return abs(fin) == FMAX[t.bit_length]
        return False
    if isinstance(t, pydsdl.PrimitiveType):
        return a == b
    if isinstance(t, pydsdl.ArrayType):
        return len(a) == len(b) and all(same(t.element_type, x, y, lenient_float) for x, y in zip(a, b))
    if isinstance(t, pydsdl.CompositeType):
        it = inner(t)
        if isinstance(it, pydsdl.UnionType):
            if set(a) != set(b):
                return False
            k = next(iter(a))
            f = next(f for f in it.fields if f.name == k)
            return same(f.data_type, a[k], b[k], lenient_float)
        return all(same(f.data_type, a[f.name], b[f.name], lenient_float) for f in it.fields_except_padding)
    raise TypeError(t)


def has_inexact_float(t, v):
    if isinstance(t, pydsdl.FloatType):
        return not float_exact(float(v), t.bit_length)
    if isinstance(t, pydsdl.ArrayType):
        return any(has_inexact_float(t.element_type, e) for e in v) if isinstance(t.element_type, (pydsdl.FloatType, pydsdl.CompositeType)) else False
    if isinstance(t, pydsdl.CompositeType):
        it = inner(t)
        if isinstance(it, pydsdl.UnionType):
            (k, x), = v.items()
            f = next(f for f in it.fields if f.name == k)
            return has_inexact_float(f.data_type, x)
        return any(has_inexact_float(f.data_type, v[f.name]) for f in it.fields_except_padding)
    return False


# ------------------------------------------------------------------------------------------------ pydsdl cross-check
def to_pydsdl(t, v):
    """Value in the dict format pydsdl.serialize expects (utf8 arrays as bytes)."""
    if isinstance(t, pydsdl.ArrayType):
        if isinstance(t.element_type, pydsdl.UTF8Type):
            return bytes(v)
        return [to_pydsdl(t.element_type, e) for e in v]
    if isinstance(t, pydsdl.CompositeType):
        it = inner(t)
        if isinstance(it, pydsdl.UnionType):
            (k, x), = v.items()
            f = next(f for f in it.fields if f.name == k)
            return {k: to_pydsdl(f.data_type, x)}
        return {f.name: to_pydsdl(f.data_type, v[f.name]) for f in it.fields_except_padding}
    return v


def from_pydsdl(t, v):
    if isinstance(t, pydsdl.BooleanType):
        return bool(v)
    if isinstance(t, pydsdl.IntegerType):
        return int(v)
    if isinstance(t, pydsdl.FloatType):
        return float(v)
    if isinstance(t, pydsdl.ArrayType):
        if isinstance(v, str):
            v = v.encode()
        if isinstance(v, (bytes, bytearray)):
            return list(v)
        return [from_pydsdl(t.element_type, e) for e in v]
    if isinstance(t, pydsdl.CompositeType):
        it = inner(t)
        if isinstance(it, pydsdl.UnionType):
            (k, x), = v.items()
            f = next(f for f in it.fields if f.name == k)
            return {k: from_pydsdl(f.data_type, x)}
        return {f.name: from_pydsdl(f.data_type, v[f.name]) for f in it.fields_except_padding}
    raise TypeError(t)


def crosscheck_decode(t, data):
    """('ok', value) / ('invalid',) / ('unavailable',) from PyDSDL's own independent codec."""
    try:
        return ("ok", from_pydsdl(t, pydsdl.deserialize(t, bytes(data))))
    except pydsdl.SerDesError:
        return ("invalid",)
    except (UnicodeDecodeError, Exception):
        return ("unavailable",)


def crosscheck_encode(t, v):
    try:
        return ("ok", bytes(pydsdl.serialize(t, to_pydsdl(t, normalize(t, v)))))
    except Exception:
        return ("unavailable",)


# ------------------------------------------------------------------------------------------------ value generation
def storage_bits(t):
    for o in (8, 16, 32, 64):
        if t.bit_length <= o:
            return o
    raise ValueError(t)


def gen_float(r, bits, exact=True):
    x = _gen_float(r, bits, exact)
    return math.nan if x != x else x      # NaN payloads / signs are not judged: always the canonical quiet NaN


def _gen_float(r, bits, exact=True):
    c = r.random()
    f, u = FMT[bits]
    if c < 0.12:
        return r.choice([0.0, -0.0, 1.0, -1.0, FMAX[bits], -FMAX[bits], math.inf, -math.inf, math.nan])
    if c < 0.2:     # subnormals / smallest normals
        return bits_to_float(r.choice([1, 2, (1 << {16: 10, 32: 23, 64: 52}[bits]) - 1, 1 << {16: 10, 32: 23, 64: 52}[bits]]) | (r.getrandbits(1) << (bits - 1)), bits)
    if c < 0.8 or exact:
        return bits_to_float(r.getrandbits(bits), bits)
    return r.uniform(-1e5, 1e5)


def gen_value(r, t, in_range=True, maxlen=40, depth=0):
    """Random/boundary value. in_range=False draws integers/floats from the *storage* type of C/C++ (cast modes apply)."""
    if isinstance(t, pydsdl.BooleanType):
        return r.random() < 0.5
    if isinstance(t, pydsdl.IntegerType):
        lo, hi = int(t.inclusive_value_range.min), int(t.inclusive_value_range.max)
        if in_range:          # True or "py" (a Python scalar)
            return r.choice([lo, hi, 0, min(1, hi), max(-1, lo), r.randint(lo, hi), r.randint(lo, hi), hi - 1 if hi > lo else hi, lo + 1 if hi > lo else lo])
        sb = storage_bits(t)
        slo, shi = (-(1 << (sb - 1)), (1 << (sb - 1)) - 1) if isinstance(t, pydsdl.SignedIntegerType) else (0, (1 << sb) - 1)
        return r.choice([lo, hi, min(hi + 1, shi), max(lo - 1, slo), slo, shi, r.randint(slo, shi), r.randint(lo, hi), 0])
    if isinstance(t, pydsdl.FloatType):
        if in_range:
            return gen_float(r, t.bit_length)
        # storage: float for 16/32, double for 64; values beyond the field's range exercise saturation/truncation
        sb = 32 if t.bit_length <= 32 else 64
        x = gen_float(r, sb)
        if t.bit_length == 16 and x == x and not math.isinf(x):
            c = r.random()
            if c < 0.5:
                x = gen_float(r, 16)                               # exactly representable half
            elif abs(x) <= FMAX[16] + 16.0 or not float_exact(x, 16):
                x = math.copysign(r.choice([1e5, 70000.0, 3.0e38, 65536.0]), x)   # clearly out of range (no rounding question)
        return x
    if isinstance(t, pydsdl.ArrayType):
        if isinstance(t, pydsdl.VariableLengthArrayType):
            n = r.choice([0, 1, t.capacity, r.randint(0, t.capacity), r.randint(0, min(t.capacity, 5))])
            n = min(n, maxlen) if n != t.capacity or t.capacity <= 4 * maxlen else n if r.random() < 0.15 else min(n, maxlen)
        else:
            n = t.capacity
        if isinstance(t.element_type, pydsdl.UTF8Type):
            return [r.choice(b"abc xyz09\x00\xff\xc3") for _ in range(n)]
        em = in_range
        if in_range == "py":
            # what a generated Python object can hold: scalars are range-checked, integer array elements only by their NumPy dtype
            em = False if isinstance(t.element_type, pydsdl.IntegerType) else "py"
        if n > 64 and isinstance(t.element_type, pydsdl.PrimitiveType):
            base = [gen_value(r, t.element_type, em, maxlen, depth + 1) for _ in range(8)]
            return [base[i % 8] for i in range(n)]
        return [gen_value(r, t.element_type, em, maxlen, depth + 1) for _ in range(n)]
    if isinstance(t, pydsdl.CompositeType):
        it = inner(t)
        if isinstance(it, pydsdl.UnionType):
            f = r.choice(it.fields)
            return {f.name: gen_value(r, f.data_type, in_range, maxlen, depth + 1)}
        return {f.name: gen_value(r, f.data_type, in_range, maxlen, depth + 1) for f in it.fields_except_padding}
    raise TypeError(t)


def max_value(t):
    """A value of maximal serialized size (arrays at capacity, largest union option)."""
    if isinstance(t, pydsdl.BooleanType):
        return True
    if isinstance(t, pydsdl.IntegerType):
        return int(t.inclusive_value_range.max)
    if isinstance(t, pydsdl.FloatType):
        return 1.0
    if isinstance(t, pydsdl.ArrayType):
        e = max_value(t.element_type)
        return [e] * t.capacity
    it = inner(t)
    if isinstance(it, pydsdl.UnionType):
        f = max(it.fields, key=lambda f: f.data_type.bit_length_set.max)
        return {f.name: max_value(f.data_type)}
    return {f.name: max_value(f.data_type) for f in it.fields_except_padding}


def min_value(t, which=0):
    """The opposite extreme: every integer at its minimum, every float at the most negative finite value of its format, arrays at
    capacity, union option number `which` (modulo the number of options)."""
    if isinstance(t, pydsdl.BooleanType):
        return False
    if isinstance(t, pydsdl.IntegerType):
        return int(t.inclusive_value_range.min)
    if isinstance(t, pydsdl.FloatType):
        return -FMAX[t.bit_length]
    if isinstance(t, pydsdl.ArrayType):
        n = t.capacity if t.capacity <= 300 else (t.capacity if isinstance(t, pydsdl.FixedLengthArrayType) else 300)
        if isinstance(t.element_type, pydsdl.UTF8Type):
            return [0] * n
        return [min_value(t.element_type, which)] * n
    it = inner(t)
    if isinstance(it, pydsdl.UnionType):
        f = it.fields[which % len(it.fields)]
        return {f.name: min_value(f.data_type, which)}
    return {f.name: min_value(f.data_type, which) for f in it.fields_except_padding}


# ------------------------------------------------------------------------------------------------ value stream (harness I/O)
def vs_write(t, v, out, clip=True):
    """Serialises a value into the harness' value stream: 8 bytes per scalar (little endian; floats as raw IEEE bits of the
    storage type: binary32 for float16/float32 fields, binary64 for float64), u64 count before variable arrays, u64 tag before a
    union's selected member."""
    if isinstance(t, pydsdl.BooleanType):
        out += struct.pack("<Q", 1 if v else 0)
    elif isinstance(t, pydsdl.IntegerType):
        out += struct.pack("<Q", int(v) & 0xFFFFFFFFFFFFFFFF)
    elif isinstance(t, pydsdl.FloatType):
        if t.bit_length <= 32:
            try:
                b = struct.pack("<f", v)
            except OverflowError:
                b = struct.pack("<f", math.copysign(math.inf, v))
            out += b + b"\0\0\0\0"
        else:
            out += struct.pack("<d", v)
    elif isinstance(t, pydsdl.ArrayType):
        if isinstance(t, pydsdl.VariableLengthArrayType):
            # an over-long list is a hostile value: the C loader stores the count and only `capacity` elements (clip), the C++
            # loader really builds the longer container (no clip)
            out += struct.pack("<Q", len(v))
            if clip:
                v = v[:t.capacity]
        for e in v:
            vs_write(t.element_type, e, out, clip)
    else:
        it = inner(t)
        if isinstance(it, pydsdl.UnionType):
            (k, x), = v.items()
            if k == "__raw_tag__":          # hostile: an invalid tag and no member (C only)
                out += struct.pack("<Q", x)
                return out
            idx = next(i for i, f in enumerate(it.fields) if f.name == k)
            out += struct.pack("<Q", idx)
            vs_write(it.fields[idx].data_type, x, out, clip)
        else:
            for f in it.fields_except_padding:
                vs_write(f.data_type, v[f.name], out, clip)
    return out


class VSReader:
    def __init__(self, data):
        self.d, self.p = data, 0

    def u64(self):
        x = struct.unpack_from("<Q", self.d, self.p)[0]
        self.p += 8
        return x


def vs_read(t, rd):
    if isinstance(t, pydsdl.BooleanType):
        return bool(rd.u64())
    if isinstance(t, pydsdl.UnsignedIntegerType):
        return rd.u64()
    if isinstance(t, pydsdl.SignedIntegerType):
        x = rd.u64()
        return x - (1 << 64) if x >> 63 else x
    if isinstance(t, pydsdl.FloatType):
        x = rd.u64()
        if t.bit_length <= 32:
            return struct.unpack("<f", struct.pack("<I", x & 0xFFFFFFFF))[0]
        return struct.unpack("<d", struct.pack("<Q", x))[0]
    if isinstance(t, pydsdl.ArrayType):
        n = rd.u64() if isinstance(t, pydsdl.VariableLengthArrayType) else t.capacity
        if n > t.capacity:
            raise ValueError("dumped count %d > capacity %d" % (n, t.capacity))
        return [vs_read(t.element_type, rd) for _ in range(n)]
    it = inner(t)
    if isinstance(it, pydsdl.UnionType):
        tag = rd.u64()
        if tag >= len(it.fields):
            raise ValueError("dumped union tag %d" % tag)
        f = it.fields[tag]
        return {f.name: vs_read(f.data_type, rd)}
    return {f.name: vs_read(f.data_type, rd) for f in it.fields_except_padding}
