"""C02 - generated deserializers decode every byte string as the specification prescribes.

Every deserialize() execution of the generated C, C++ and Python code (sanitized builds, exact-size heap buffers, NULL+0 for C)
is observed and compared with the reference model's decode (zero extension incl. inside delimiter-bounded nested objects,
truncation, sign extension, delimiter headers, count / tag validity), cross-checked per case against pydsdl.deserialize.
"""
import random
import shutil

from vlib import build, codecwork as W, common, refmodel as M

LEVEL = "exploration"
MANIFEST = {
    "category": "exploration",
    "technique": "runtime monitoring of generated decoders under ASan/UBSan with a reference-model oracle (own decoder cross-checked against pydsdl.deserialize) over valid, truncated, extended, bit-flipped and random byte strings",
    "text": "For the coverage corpus plus random namespace sets and the C / C++ / Python option matrix, every type is decoded from valid "
            "encodings of generated values, stratified truncations (always inside length prefixes, tags, delimiter headers and "
            "mid-field), garbage extensions, bit flips concentrated on prefixes/tags/headers, all-ones / all-zeros and random strings, "
            "the empty string and NULL+0; value, error presence and consumed <= supplied are judged against the model.",
    "note": "The kind of error is not judged (only its presence); 'consumed' need only be <= n; contents of inactive storage and NaN payloads are "
            "not judged. Cases where the own model and PyDSDL's codec disagree are not judged and make the run inconclusive.",
}
MANIFEST["text"] += ' C and C++ decodes also start from the object an earlier full message left behind (every array full, every bit set); the Python harness overwrites, in place, the arrays of every object it decoded before the next decode.'
MANIFEST["text"] += ' Python receives its input as fragment sequences (whole, cut, with empty fragments, none at all for the empty representation); the big-union set is decoded too.'


def classify(base, t, data, exp_ok, res, flags):
    if base.lang == "py" and exp_ok and res["st"] == "err" and "delimiter_header_beyond_end" in flags:
        return "py-delimiter-header-beyond-end-rejected"
    if base.lang == "py" and exp_ok and res["st"] == "exc" and res.get("exc") == "AssertionError" and "delimiter_header_larger_than_extent" in flags:
        return "py-delimiter-header-larger-than-extent-assertion"
    return None


def judge_des(ctx, base, t, label, data, res, witness):
    ctx.count("evaluations")
    ctx.count("des_executions[%s]" % base.name)
    flags = set()
    try:
        exp, _ = M.decode(t, data, flags)
        invalid = None
    except M.Invalid as e:
        exp, invalid = None, e.kind
    w = dict(witness, base=base.name, type=str(t), input_kind=label, data=bytes(data).hex()[:600], n=len(data))
    x = M.crosscheck_decode(t, data)
    if x[0] == "ok" and (invalid or not M.same(t, x[1], exp)):
        ctx.count("model_disagreement")
        return
    if x[0] == "invalid" and not invalid:
        ctx.count("model_disagreement")
        return
    if x[0] != "unavailable":
        ctx.count("crosschecked_against_pydsdl")
    if res["st"] == "crash":
        ctx.refute(None, "deserialization crashed: %s %s" % (res["kind"], res["frames"][:2]), dict(w, report=res["text"][-1200:]))
        return
    if res["st"] == "missing":
        ctx.count("unobserved")
        return
    if res["st"] == "baddump":
        ctx.refute(None, "%s: decoded object is not a valid value of %s (%s)" % (base.name, t, res["why"]), w)
        return
    if res["st"] == "exc":
        if res.get("env_numpy2"):
            ctx.count("env_numpy2_excluded")
            return
        mech = classify(base, t, data, invalid is None, res, flags)
        ctx.refute(mech, "Python deserialization raised %s: %s" % (res.get("exc"), (res.get("msg") or "")[:120]), dict(w, tb=res.get("tb")))
        return
    if invalid:
        ctx.count("error_expected")
        if res["st"] == "ok":
            ctx.refute(None, "%s: invalid representation (%s) accepted for %s" % (base.name, invalid, t), dict(w, got=str(res.get("value"))[:300]))
        else:
            ctx.count("error_reported_when_expected")
            ctx.distinct((W.features(t), "invalid", invalid))
        return
    if res["st"] == "err":
        mech = classify(base, t, data, True, res, flags)
        ctx.count("refuted[%s]" % mech)
        ctx.refute(mech, "%s: valid representation of %s rejected (rc=%s, input %s of %d bytes)" % (base.name, t, res.get("rc"), label, len(data)), w)
        return
    if res.get("size") is not None and res["size"] > len(data):
        ctx.refute(None, "%s: consumed %d bytes of %d supplied" % (base.name, res["size"], len(data)), w)
        return
    if not M.same(t, exp, res["value"]):
        ctx.refute(None, "%s: decoded value of %s differs from the specification (input %s of %d bytes)" % (base.name, t, label, len(data)),
                   dict(w, got=str(res["value"])[:500], expected=str(exp)[:500]))
        return
    ctx.count("des_value_ok")
    if label in ("truncated", "empty"):
        ctx.count("zero_extension_executions")
    ctx.distinct((W.features(t), label))


def run_set(ctx, item, ninputs):
    idx, dsdl_dir, roots, parsed = item
    R = random.Random("c02/%s/%s" % (ctx.seed, idx))
    wd = ctx.sub("work_%s" % idx)
    bases = W.build_bases(wd, dsdl_dir, roots, parsed, W.base_specs(ctx.quick, idx))
    witness = dict(set=idx, seed=ctx.seed)
    # the same inputs for every base
    inputs = {}
    busy = {}
    for b in bases:
        if b.error:
            ctx.count("bases_failed[%s]" % b.name)
            ctx.extra.setdefault("base_failures", []).append(dict(set=idx, base=b.name, stage=b.error[0], detail=b.error[1][-400:]))
            continue
        ctx.count("bases_built")
        vectors, meta = [], []
        for ti, t in enumerate(b.msgs):
            if ti not in inputs:
                inputs[ti] = W.des_inputs(R, t, ninputs)
            if ti not in busy:
                # an earlier message that leaves every array full and every bit set: what a reused destination object holds
                try:
                    busy[ti] = M.encode(t, M.max_value(t))
                except Exception:
                    busy[ti] = b""
            for k, (label, data) in enumerate(inputs[ti]):
                # the value decoded never depends on what the destination held before: C starts from zeroed / 0xFF / PRNG-filled
                # objects or from the object an earlier decode left; C++ from a fresh object or from one an earlier decode left
                prior = k % 4 if b.lang == "c" else (3 if (b.lang == "cpp" and k % 2) else 0)
                vectors.append(dict(op="des", ti=ti, data=data, prior=prior, prior_data=busy[ti], null_when_empty=(k % 2 == 0)))
                if prior == 3:
                    ctx.count("des_into_reused_object[%s]" % b.lang)
                meta.append((t, label, data))
        results, exit_reports, inc = b.run(vectors)
        if inc:
            ctx.inconclusive_because("%s: %s" % (b.name, inc))
        for (t, label, data), res in zip(meta, results):
            judge_des(ctx, b, t, label, data, res, witness)
    W.cleanup_bases(bases)
    shutil.rmtree(wd, ignore_errors=True)


def run(ctx):
    ctx.rule = ("case = (type, byte string, code base); distinct = distinct (type feature vector, input kind) pairs decoded in agreement with the specification "
                "+ distinct (feature vector, error kind) refusals; non-trivial = truncated / extended / mutated / random inputs (everything but plain valid encodings)")
    ok, why = build.sanitizer_canary(ctx.sub("canary"))
    if not ok:
        ctx.inconclusive_because("sanitizer canary: " + why)
        return
    sets = W.make_sets(ctx, ctx.pick(2, 24), "c02")
    for item in sets:
        run_set(ctx, item, ctx.pick(5, 40))
    run_set(ctx, W.big_union_set(ctx), ctx.pick(5, 40))
    ctx.sample({"type": "cov.DOuter.1.0", "input": "truncated inside the delimiter header of field 'one'", "oracle": "refmodel.decode + pydsdl.deserialize cross-check"})
    ctx.require("des_value_ok", 2000)
    ctx.require("error_reported_when_expected", 200)
    ctx.require("zero_extension_executions", 200)
    ctx.require("crosschecked_against_pydsdl", 1000)
    for lang in ("c_any", "cpp14", "py"):
        ctx.require("des_executions[%s]" % lang, 200)
    if ctx.counters["model_disagreement"]:
        ctx.inconclusive_because("%d cases where the own model and PyDSDL's codec disagree" % ctx.counters["model_disagreement"])
