"""Child-interpreter side of the Python-target harness (E4).  Runs under /venv's interpreter with
PYTHONPATH = <generated output dir>:/verif:/verif/.deps ; imports the *generated* packages and nunavut_support.

Protocol: JSON lines on stdin/stdout.  First line: {"dsdl": dir, "roots": [...], "shim": bool}.
"""
import collections
import importlib
import json
import math
import os
import random
import struct
import sys
import traceback

import pydsdl

from vlib import refmodel as M

ns = None
np = None
MODELS = {}


def key_of(t):
    return "%s.%d.%d" % (t.full_name, t.version.major, t.version.minor)


def load_models(dsdl, roots):
    for root in roots:
        look = [os.path.join(dsdl, x) for x in roots if x != root]
        for T in pydsdl.read_namespace(os.path.join(dsdl, root), look, allow_unregulated_fixed_port_id=True):
            MODELS[key_of(T)] = T
            if isinstance(T, pydsdl.ServiceType):
                MODELS[key_of(T.request_type)] = T.request_type
                MODELS[key_of(T.response_type)] = T.response_type


def install_numpy2_shim():
    """NumPy >= 2 no longer promotes by value: `np.int8(0) & 0xFF` raises OverflowError where NumPy 1.x (the documented
    requirement of the generated code, numpy ~= 1.24) returned a wider integer.  Coerce scalar arguments of the Serializer to
    Python int, which is what value-based promotion amounted to."""
    S = ns.Serializer
    for name in dir(S):
        if name.startswith(("add_aligned_", "add_unaligned_")) and not any(x in name for x in ("array", "bytes", "bit", "_f16", "_f32", "_f64")):
            orig = getattr(S, name)

            def make(orig):
                def w(self, value, *a, **k):
                    if isinstance(value, np.integer):
                        value = int(value)
                    return orig(self, value, *a, **k)
                return w
            setattr(S, name, make(orig))


# ------------------------------------------------------------------------------------------------ value <-> object
def jval(t, v):
    """refmodel value -> JSON-able (floats as raw binary64 bits to keep NaN/inf/-0.0)."""
    if isinstance(t, pydsdl.FloatType):
        return {"f": "%016x" % struct.unpack("<Q", struct.pack("<d", float(v)))[0]}
    if isinstance(t, pydsdl.PrimitiveType):
        return v
    if isinstance(t, pydsdl.ArrayType):
        return [jval(t.element_type, e) for e in v]
    it = M.inner(t)
    if isinstance(it, pydsdl.UnionType):
        (k, x), = v.items()
        f = next(f for f in it.fields if f.name == k)
        return {k: jval(f.data_type, x)}
    return {f.name: jval(f.data_type, v[f.name]) for f in it.fields_except_padding}


def unj(t, j):
    if isinstance(t, pydsdl.FloatType):
        return struct.unpack("<d", struct.pack("<Q", int(j["f"], 16)))[0]
    if isinstance(t, pydsdl.PrimitiveType):
        return j
    if isinstance(t, pydsdl.ArrayType):
        return [unj(t.element_type, e) for e in j]
    it = M.inner(t)
    if isinstance(it, pydsdl.UnionType):
        (k, x), = j.items()
        f = next(f for f in it.fields if f.name == k)
        return {k: unj(f.data_type, x)}
    return {f.name: unj(f.data_type, j[f.name]) for f in it.fields_except_padding}


def to_value(t, obj):
    """Generated object -> refmodel value, through the public attribute API."""
    it = M.inner(t)
    if isinstance(it, pydsdl.UnionType):
        sel = [(f, ns.get_attribute(obj, f.name)) for f in it.fields]
        sel = [(f, v) for f, v in sel if v is not None]
        if len(sel) != 1:
            raise UnionBroken("%d options set in %s" % (len(sel), t))
        f, v = sel[0]
        return {f.name: fv(f.data_type, v)}
    return {f.name: fv(f.data_type, ns.get_attribute(obj, f.name)) for f in it.fields_except_padding}


class UnionBroken(Exception):
    pass


def fv(t, v):
    if isinstance(t, pydsdl.BooleanType):
        return bool(v)
    if isinstance(t, pydsdl.IntegerType):
        return int(v)
    if isinstance(t, pydsdl.FloatType):
        return float(v)
    if isinstance(t, pydsdl.ArrayType):
        return [fv(t.element_type, e) for e in v]
    return to_value(t, v)


def to_object(t, v):
    cls = ns.get_class(t)
    it = M.inner(t)
    if isinstance(it, pydsdl.UnionType):
        (k, x), = v.items()
        f = next(f for f in it.fields if f.name == k)
        o = cls()
        ns.set_attribute(o, k, tv(f.data_type, x))
        return o
    o = cls()
    for f in it.fields_except_padding:
        ns.set_attribute(o, f.name, tv(f.data_type, v[f.name]))
    return o


def tv(t, v):
    if isinstance(t, pydsdl.ArrayType):
        if isinstance(t.element_type, pydsdl.CompositeType):
            return [to_object(t.element_type, e) for e in v]
        return [tv(t.element_type, e) for e in v]
    if isinstance(t, pydsdl.CompositeType):
        return to_object(t, v)
    return v


# ------------------------------------------------------------------------------------------------ ops
def op_des(cmd):
    t = MODELS[cmd["type"]]
    cls = ns.get_class(t)
    b = bytes.fromhex(cmd["hex"])
    frags = [memoryview(b)] if not cmd.get("fragments") else [memoryview(b[i:j]) for i, j in zip([0] + cmd["fragments"], cmd["fragments"] + [len(b)])]
    if cmd.get("nofrag") and not b:
        frags = []
    o = ns.deserialize(cls, frags)
    if o is None:
        return {"st": "none"}
    v = to_value(t, o)
    try:
        re = b"".join(bytes(x) for x in ns.serialize(o)).hex()
    except Exception as e:
        re = "EXC:%s" % type(e).__name__
    # what an application may do with an object it owns: change its arrays in place.  Nothing decoded later may be affected.
    n = scribble(t, o)
    return {"st": "ok", "value": jval(t, v), "reser": re, "scribbled": n}


def scribble(t, obj):
    """Overwrites, in place, every writable NumPy array reachable from a decoded object; returns how many were written."""
    n = 0
    it = M.inner(t)
    for f in (it.fields if isinstance(it, pydsdl.UnionType) else it.fields_except_padding):
        try:
            v = ns.get_attribute(obj, f.name)
        except Exception:
            continue
        if v is None:
            continue
        dt = f.data_type
        if isinstance(dt, pydsdl.CompositeType):
            n += scribble(dt, v)
        elif isinstance(dt, pydsdl.ArrayType):
            if isinstance(v, np.ndarray) and v.dtype != object:
                if v.flags.writeable and v.size:
                    v.fill(True if v.dtype == np.bool_ else (1.5 if v.dtype.kind == "f" else 0x55))
                    n += 1
            elif isinstance(dt.element_type, pydsdl.CompositeType):
                for e in v:
                    n += scribble(dt.element_type, e)
    return n


def op_ser(cmd):
    t = MODELS[cmd["type"]]
    o = to_object(t, unj(t, cmd["value"]))
    b = b"".join(bytes(x) for x in ns.serialize(o))
    back = ns.deserialize(ns.get_class(t), [memoryview(b)])
    out = {"st": "ok", "hex": b.hex(), "back": jval(t, to_value(t, back)) if back is not None else None}
    # the same round trip with live objects and no copies in between: the decoder is fed the serializer's own fragments, and the
    # decoded object is serialized again (ser(des(ser(v))) as an application that forwards messages performs it)
    try:
        frs = list(ns.serialize(o))
        live = ns.deserialize(ns.get_class(t), frs)
        if live is not None:
            before = json.dumps(jval(t, to_value(t, live)), sort_keys=True)
            out["live_hex"] = b"".join(bytes(x) for x in ns.serialize(live)).hex()
            out["live_stable"] = before == json.dumps(jval(t, to_value(t, live)), sort_keys=True)
        else:
            out["live_hex"] = "NONE"
    except Exception as e:
        out["live_hex"] = "EXC:%s: %s" % (type(e).__name__, str(e)[:120])
    return out


def op_consts(cmd):
    """C05: exported metadata of a generated class."""
    t = MODELS[cmd["type"]]
    cls = ns.get_class(t)
    out = {"EXTENT": getattr(cls, "_EXTENT_BYTES_", None), "PORT": getattr(cls, "_FIXED_PORT_ID_", None),
           "get_extent_bytes": ns.get_extent_bytes(cls), "get_fixed_port_id": ns.get_fixed_port_id(cls), "consts": {}}
    for c in M.inner(t).constants:
        for n in (c.name, c.name + "_"):
            if hasattr(cls, n):
                v = getattr(cls, n)
                if isinstance(v, bool):
                    out["consts"][c.name] = ["bool", bool(v)]
                elif isinstance(v, int):
                    out["consts"][c.name] = ["int", int(v)]
                elif isinstance(v, float):
                    out["consts"][c.name] = ["f64", "%016x" % struct.unpack("<Q", struct.pack("<d", v))[0]]
                else:
                    out["consts"][c.name] = ["other", repr(v)[:60]]
                break
        else:
            out["consts"][c.name] = ["missing", None]
    m = ns.get_model(cls)
    out["model_name"] = str(m)
    # the embedded model is exported metadata too
    mi = m.inner_type if hasattr(m, "inner_type") else m
    out["model_consts"] = {c.name: str(c.value.native_value) for c in mi.constants}
    out["model_port"] = (m.fixed_port_id if m.has_fixed_port_id else None) if not getattr(m, "has_parent_service", False) else "n/a"
    out["model_fields"] = [f.name for f in mi.fields_except_padding]
    return {"st": "ok", "info": out}


def main():
    global ns, np
    hdr = json.loads(sys.stdin.readline())
    import numpy
    np = numpy
    import nunavut_support
    ns = nunavut_support
    load_models(hdr["dsdl"], hdr["roots"])
    if hdr.get("shim"):
        install_numpy2_shim()
    print(json.dumps({"ready": True, "numpy": np.__version__, "types": len(MODELS)}), flush=True)
    for line in sys.stdin:
        cmd = json.loads(line)
        try:
            if cmd["op"] == "des":
                r = op_des(cmd)
            elif cmd["op"] == "ser":
                r = op_ser(cmd)
            elif cmd["op"] == "consts":
                r = op_consts(cmd)
            elif cmd["op"] == "c18":
                from vlib import pychild_c18
                r = pychild_c18.run(cmd, sys.modules[__name__])
            else:
                r = {"st": "badop"}
        except OverflowError as e:
            r = {"st": "exc", "exc": "OverflowError", "msg": str(e)[:200], "env_numpy2": "out of bounds for" in str(e)}
        except UnionBroken as e:
            r = {"st": "exc", "exc": "UnionBroken", "msg": str(e)}
        except Exception as e:
            r = {"st": "exc", "exc": type(e).__name__, "msg": str(e)[:300], "tb": traceback.format_exc()[-800:]}
        r["id"] = cmd.get("id")
        print(json.dumps(r), flush=True)


if __name__ == "__main__":
    main()
