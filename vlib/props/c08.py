"""C08 - listing and dry-run modes tell the build system the truth.

Monitors on the real CLI, inside a sandbox directory:
 (i)   set(--list-outputs) == set(files a real run creates) for option combinations whose real run succeeds;
 (ii)  --list-outputs / --list-inputs / --list-configuration / --dry-run mutate nothing: sys.addaudithook events recorded by the
       launcher (open-for-write, mkdir, rename, remove, chmod, ...) plus recursive before/after snapshots that include mode and
       mtime, on empty output directories AND on output directories populated (read-only files) by an earlier real run;
 (iii) --list-inputs names every file whose content influences the output: DSDL files by perturbation (widen a field / change
       a constant and regenerate), templates by perturbation when they live in user directories and by the audit hook's record
       of template / support files opened during a real run when they are built-in.
"""
import json
import os
import random
import re
import shutil

from vlib import common, dsdlgen, genrun

LEVEL = "exploration"
MANIFEST = {
    "category": "exploration",
    "technique": "runtime monitoring of the real CLI: audit-hook event log + recursive fs snapshots (mode, mtime, content) around listing/dry-run invocations; set-equality oracle list-outputs vs real run; influence-by-perturbation oracle for list-inputs",
    "text": "Option combinations (language x --generate-support {always,never,as-needed,only} x --omit-serialization-support x "
            "--generate-namespace-types x output extension/stem x user template/support-template directories x lookup "
            "directories) are executed three ways: listing, dry-run and real. The launcher records every file-system mutation "
            "event through sys.addaudithook, the sandbox (inputs, outputs, cwd, template dirs) is snapshotted before and after "
            "each non-writing mode, both on a fresh and on a populated read-only output tree; listed outputs are compared with "
            "created files; each DSDL and user template file is perturbed and generation repeated to decide influence, and "
            "built-in template/support files opened during the real run must be listed."
            " Inputs include lookup types reachable only through the request/response of a service (directly, in arrays, transitively) and user template directories with same-named partials in sub-folders.",
    "note": "Order and duplicates in lists are not judged; listing more inputs than necessary is allowed; combinations the CLI refuses are skipped and counted.",
}
MANIFEST["text"] += ' A root namespace directory without any definition is one of the option combinations.'

LAUNCH = os.path.join(common.VERIF, "vlib", "launch_nnvg.py")


def launch(args, cwd, audit_log=None, env=None):
    e = common.child_env(**(env or {}))
    if audit_log:
        e["VERIF_AUDIT_LOG"] = audit_log
    return common.run([common.PY, LAUNCH] + [str(a) for a in args], cwd=cwd, env=e, timeout=900)


def parse_list(stdout, cwd):
    return {os.path.normpath(os.path.join(cwd, p)) for p in stdout.split(";") if p.strip()}


def audit_events(path, root):
    """Mutation events under `root` (the sandbox) and files opened for reading anywhere."""
    muts, reads = [], set()
    if not os.path.exists(path):
        return muts, reads
    for line in open(path):
        try:
            j = json.loads(line)
        except ValueError:
            continue
        if j["e"] == "open":
            p = os.path.abspath(j["p"]) if not os.path.isabs(j["p"]) else j["p"]
            if j["w"]:
                if p.startswith(root):
                    muts.append(("open-for-write", p))
            else:
                reads.add(os.path.realpath(p))
        else:
            if any(isinstance(a, str) and os.path.abspath(a).startswith(root) for a in j["a"]):
                muts.append((j["e"], j["a"]))
    return muts, reads


def snap(root):
    s = {}
    for dp, dn, fn in os.walk(root):
        for n in dn + fn:
            p = os.path.join(dp, n)
            st = os.lstat(p)
            h = ""
            if os.path.isfile(p) and not os.path.islink(p):
                try:
                    h = common.sha(open(p, "rb").read())
                except OSError:
                    h = "unreadable"
            s[os.path.relpath(p, root)] = (st.st_mode, st.st_mtime_ns, st.st_size, h)
    return s


def make_sandbox(ctx, idx, R):
    sb = ctx.sub("sb%d" % idx)
    roots, parsed, _ = dsdlgen.make_set(os.path.join(sb, "in", "dsdl"), "c08/%s/%d" % (ctx.seed, idx), "codec", nroots=2, docs=False, extents=False,
                                        types_per_root=(3, 5))
    os.makedirs(os.path.join(sb, "work"))
    # choose as main root the one that references the other (lookup dependency), if any
    main = roots[0]
    for r in roots:
        for t in parsed[r]:
            if any(dt.root_namespace != r for dt in dsdlgen.composite_deps(t)):
                main = r
    # lookup types that are reachable ONLY through the request / response of a service of the main root, directly, through an
    # array and transitively (the walk over dependencies must descend into service halves)
    other = [r for r in roots if r != main][0]
    dd = os.path.join(sb, "in", "dsdl")
    os.makedirs(os.path.join(dd, other, "deepq"), exist_ok=True)
    with open(os.path.join(dd, other, "deepq", "OnlyDeepq.1.0.dsdl"), "w") as f:
        f.write("uint8 a\n@sealed\n")
    with open(os.path.join(dd, other, "OnlySvcReqq.1.0.dsdl"), "w") as f:
        f.write("uint8 a\n%s.deepq.OnlyDeepq.1.0 d\n@sealed\n" % other)
    with open(os.path.join(dd, other, "OnlySvcRespq.1.0.dsdl"), "w") as f:
        f.write("uint16 a\n@sealed\n")
    with open(os.path.join(dd, other, "NeverUsedq.1.0.dsdl"), "w") as f:
        f.write("uint8 a\n@sealed\n")
    with open(os.path.join(dd, main, "ViaSvcq.1.0.dsdl"), "w") as f:
        f.write("uint8 x\n%s.OnlySvcReqq.1.0 r\n@sealed\n---\n%s.OnlySvcRespq.1.0[<=2] rr\n@sealed\n" % (other, other))
    parsed = dsdlgen.read_all(dd, roots)
    return sb, roots, parsed, main


def combos(R, quick):
    out = []
    for lang in ("c", "cpp", "py", "html"):
        for gs in ("always", "never", "as-needed", "only"):
            for omit in (False, True):
                for nst in (False, True):
                    out.append(dict(lang=lang, gs=gs, omit=omit, nst=nst, ext=None, stem=None, user_templates=False, user_support=False))
    extra = []
    for c in R.sample(out, 16):
        c2 = dict(c)
        c2["ext"] = R.choice([".xx", ".gen"])
        if R.random() < 0.5:
            c2["stem"] = R.choice(["nsq", "_idx"])
        extra.append(c2)
    for lang in ("c", "cpp", "py"):
        extra.append(dict(lang=lang, gs="as-needed", omit=False, nst=False, ext=None, stem=None, user_templates=True, user_support=False))
        extra.append(dict(lang=lang, gs="always", omit=False, nst=False, ext=None, stem=None, user_templates=False, user_support=True))
    # a root namespace directory that holds no definition at all (a placeholder in a build tree): support files are all there is to list
    for lang in ("c", "cpp", "py"):
        for gs in ("as-needed", "always"):
            extra.append(dict(lang=lang, gs=gs, omit=False, nst=False, ext=None, stem=None, user_templates=False, user_support=False, root="emptyq"))
    allc = out + extra
    if quick:
        must = [c for c in allc if c["user_templates"] or c["user_support"] or c.get("root")]
        must += [c for c in out if c["gs"] == "only" and c["omit"] and not c["nst"]]
        must += [c for c in out if c["lang"] in ("py", "html") and not c["nst"] and c["gs"] == "as-needed"]
        rest = [c for c in allc if c not in must]
        allc = must + R.sample(rest, 14)
    return allc


def args_for(c, sb, main, roots, out="outq"):
    a = ["-l", c["lang"], "--experimental-languages", "--allow-unregulated-fixed-port-id", "--generate-support", c["gs"], "-O", out,
         os.path.join(sb, "in", "dsdl", c.get("root") or main)]
    os.makedirs(os.path.join(sb, "in", "dsdl", "emptyq"), exist_ok=True)
    for r in roots:
        if r != main:
            a += ["-I", os.path.join(sb, "in", "dsdl", r)]
    if c["omit"]:
        a.append("--omit-serialization-support")
    if c["nst"]:
        a.append("--generate-namespace-types")
    if c["ext"]:
        a += ["--output-extension", c["ext"]]
    if c["stem"]:
        a += ["--namespace-output-stem", c["stem"]]
    if c["user_templates"]:
        a += ["--templates", os.path.join(sb, "in", "tpl_" + c["lang"])]
    if c["user_support"]:
        a += ["--support-templates", os.path.join(sb, "in", "sup_" + c["lang"])]
    return a


def prepare_user_dirs(sb):
    """User template dirs: a full copy of the built-in type templates (so they are perturbable outside /repo) and a support dir
    that shadows one built-in support template."""
    for lang in ("c", "cpp", "py"):
        src = os.path.join(common.REPO, "src", "nunavut", "lang", lang, "templates")
        dst = os.path.join(sb, "in", "tpl_" + lang)
        os.makedirs(dst)
        for n in os.listdir(src):
            if n.endswith(".j2"):
                shutil.copy(os.path.join(src, n), dst)
        # partials of the same file name in different sub-folders, each included by one type template
        for sub, tpl in (("msgq", "StructureType.j2"), ("svcq", "ServiceType.j2")):
            os.makedirs(os.path.join(dst, sub))
            with open(os.path.join(dst, sub, "header.j2"), "w") as f:
                f.write({"py": "# partial %s\n", "c": "// partial %s\n", "cpp": "// partial %s\n"}[lang] % sub)
            with open(os.path.join(dst, tpl), "a") as f:
                f.write("\n{%% include '%s/header.j2' %%}\n" % sub)
        sup_src = os.path.join(common.REPO, "src", "nunavut", "lang", lang, "support")
        sup = os.path.join(sb, "in", "sup_" + lang)
        os.makedirs(sup)
        for n in os.listdir(sup_src):
            if n.endswith(".j2"):
                shutil.copy(os.path.join(sup_src, n), sup)
                break


def check_combo(ctx, sb, roots, parsed, main, c, k, R):
    work = os.path.join(sb, "work")
    out_abs = os.path.join(work, "outq")
    shutil.rmtree(out_abs, ignore_errors=True)
    a = args_for(c, sb, main, roots)
    witness = dict(seed=ctx.seed, combo=c, args=[x.replace(sb, "<sb>") for x in a])
    ctx.count("combinations")
    # --- non-writing modes on a fresh output directory
    listed = None
    for mode in ("--list-outputs", "--list-inputs", "--dry-run", "--list-configuration"):
        log = os.path.join(ctx.scratch, "audit_%d_%s.log" % (k, mode.strip("-")))
        if os.path.exists(log):
            os.unlink(log)
        before = snap(sb)
        r = launch(a + [mode], work, audit_log=log)
        after = snap(sb)
        ctx.count("evaluations")
        ctx.count("nonwriting_runs")
        if r.returncode != 0:
            ctx.count("refused_by_cli")
            return
        muts, _ = audit_events(log, sb)
        if before != after or muts:
            diff = sorted(set(after) ^ set(before))[:5] + [p for p in before if p in after and before[p] != after[p]][:5]
            ctx.refute(None, "%s changed the file system" % mode, dict(witness, mode=mode, changed=diff, events=muts[:5]))
        else:
            ctx.count("nonwriting_clean")
        if mode == "--list-outputs":
            listed = parse_list(r.stdout, work)
        if mode == "--list-inputs":
            listed_inputs = {os.path.realpath(p) for p in parse_list(r.stdout, work)}
    # --- the real run (audited: which files does it read?)
    log = os.path.join(ctx.scratch, "audit_%d_real.log" % k)
    if os.path.exists(log):
        os.unlink(log)
    r = launch(a, work, audit_log=log)
    ctx.count("real_runs")
    if r.returncode != 0:
        ctx.refute(None, "real run failed although the listing modes succeeded", dict(witness, stderr=r.stderr[-800:]))
        return
    muts, reads = audit_events(log, sb)
    if real_created_something(out_abs) and not muts:
        ctx.inconclusive_because("audit hook saw no mutation events in a real run that created files (canary)")
    ctx.count("audit_events_seen_in_real_runs", len(muts))
    real = set()
    for dp, dn, fn in os.walk(out_abs):
        for f in fn:
            real.add(os.path.normpath(os.path.join(dp, f)))
    if listed != real:
        lo, ro = sorted(listed - real), sorted(real - listed)
        mech = None
        ctx.refute(mech, "--list-outputs differs from the files a real run creates", dict(witness, listed_only=[p.replace(sb, "<sb>") for p in lo][:6],
                                                                                          created_only=[p.replace(sb, "<sb>") for p in ro][:6]))
    else:
        ctx.count("list_outputs_exact")
        ctx.distinct(("lo", json.dumps(c, sort_keys=True)))
    # --- built-in / user template and support files opened by the real run must be listed as inputs
    tdirs = [os.path.realpath(os.path.join(common.REPO, "src", "nunavut", "lang")), os.path.realpath(os.path.join(sb, "in"))]
    opened_templates = {p for p in reads if p.endswith(".j2") and any(p.startswith(t) for t in tdirs)}
    for p in sorted(opened_templates):
        ctx.count("opened_template_files_checked")
        if p not in listed_inputs:
            mech = "list-inputs-omits-user-support-template" if p.startswith(os.path.realpath(os.path.join(sb, "in", "sup_"))) or "/in/sup_" in p else None
            ctx.refute(mech, "--list-inputs does not name template %s which the real run reads" % p.replace(sb, "<sb>").replace(common.REPO, "<repo>"), witness)
    # --- non-writing modes on the populated (read-only) output directory
    for mode in ("--list-outputs", "--dry-run", "--list-inputs"):
        log = os.path.join(ctx.scratch, "audit_%d_pop.log" % k)
        if os.path.exists(log):
            os.unlink(log)
        before = snap(sb)
        r = launch(a + [mode], work, audit_log=log)
        after = snap(sb)
        ctx.count("evaluations")
        ctx.count("nonwriting_runs_populated")
        muts, _ = audit_events(log, sb)
        if r.returncode != 0:
            ctx.refute(None, "%s fails on an output directory populated by an earlier run" % mode, dict(witness, stderr=r.stderr[-600:]))
        elif before != after or muts:
            diff = [(p, oct(before[p][0]), oct(after[p][0])) for p in before if p in after and before[p] != after[p]][:5] + sorted(set(after) ^ set(before))[:5]
            ctx.refute(None, "%s changed an output directory populated by an earlier run" % mode, dict(witness, mode=mode, changed=diff, events=muts[:5]))
        else:
            ctx.count("nonwriting_clean_populated")
    return listed_inputs, real


def real_created_something(out_abs):
    return any(fn for _, _, fn in os.walk(out_abs))


def perturb_dsdl(text, R):
    """A semantics-changing edit that keeps the definition valid: widen the first unsigned field / else append a field."""
    m = re.search(r"^(saturated |truncated )?uint(\d+)( |\[)", text, re.M)
    if m and int(m.group(2)) < 64:
        w = int(m.group(2))
        return text[:m.start(2)] + str(w + 1 if w not in (7, 8) else w + 3) + text[m.end(2):]
    return text.replace("@sealed", "uint8 verif_added_field\n@sealed", 1)


def influence(ctx, sb, roots, parsed, main, c, listed_inputs, R):
    """(iii) every DSDL / user template file whose perturbation changes the output must be listed."""
    work = os.path.join(sb, "work")
    a = args_for(c, sb, main, roots, out="out_ref")
    r = launch(a, work)
    if r.returncode != 0:
        return
    ref = common.read_files(os.path.join(work, "out_ref"))
    cands = []
    for dp, dn, fn in os.walk(os.path.join(sb, "in", "dsdl")):
        for f in fn:
            if f.endswith(".dsdl"):
                cands.append(os.path.join(dp, f))
    if c["user_templates"]:
        cands += [os.path.join(dp, n) for dp, dn, fn in os.walk(os.path.join(sb, "in", "tpl_" + c["lang"])) for n in fn]
    if c["user_support"]:
        cands += [os.path.join(sb, "in", "sup_" + c["lang"], n) for n in os.listdir(os.path.join(sb, "in", "sup_" + c["lang"]))]

    def one(p):
        orig = open(p, encoding="utf-8").read()
        out = "out_p_%s" % common.sha(p)[:8]
        try:
            with open(p, "w", encoding="utf-8") as f:
                f.write(perturb_dsdl(orig, R) if p.endswith(".dsdl") else orig + "\n/* verif-perturbation */\n")
            r = launch(args_for(c, sb, main, roots, out=out), work)
            got = common.read_files(os.path.join(work, out)) if r.returncode == 0 else None
        finally:
            with open(p, "w", encoding="utf-8") as f:
                f.write(orig)
            shutil.rmtree(os.path.join(work, out), ignore_errors=True)
        return p, got, r.returncode
    # perturbations touch shared inputs, so they run one at a time
    for p in cands:
        p, got, rc = one(p)
        ctx.count("evaluations")
        ctx.count("perturbations")
        if got is None:
            ctx.count("perturbation_rejected_by_frontend")
            continue
        influences = got != ref
        if influences:
            ctx.count("influencing_files")
            if os.path.realpath(p) not in listed_inputs:
                rel = os.path.relpath(p, os.path.join(sb, "in"))
                in_lookup = p.endswith(".dsdl") and os.path.relpath(p, os.path.join(sb, "in", "dsdl")).split(os.sep)[0] != main
                mech = "list-inputs-omits-lookup-dsdl" if in_lookup else "list-inputs-omits-user-support-template" if "/in/sup_" in p else None
                ctx.refute(mech, "--list-inputs does not name %s although changing it changes the generated output" % rel,
                           dict(seed=ctx.seed, combo=c, file=rel))
            else:
                ctx.count("influencing_files_listed")
                ctx.distinct(("inf", os.path.relpath(p, sb)))
    shutil.rmtree(os.path.join(work, "out_ref"), ignore_errors=True)


def run(ctx):
    ctx.rule = ("case = (namespace set with lookup dependency, option combination, mode in {list-outputs, list-inputs, list-configuration, dry-run, real}, "
                "fresh or populated output directory) and (input file, perturbation); distinct = option combinations with exact listing + influencing files found listed")
    R = random.Random("c08/%s" % ctx.seed)
    nsb = ctx.pick(1, 4)
    k = 0
    for idx in range(nsb):
        sb, roots, parsed, main = make_sandbox(ctx, idx, R)
        prepare_user_dirs(sb)
        cs = combos(R, ctx.quick)
        res = {}
        import concurrent.futures

        def one(item):
            kk, c = item
            # every combination runs in its own copy of the sandbox so that snapshots see only its own effects
            sbc = os.path.join(ctx.scratch, "c%d_%d" % (idx, kk))
            shutil.copytree(sb, sbc, symlinks=True)
            try:
                return kk, c, check_combo(ctx, sbc, roots, parsed, main, c, kk, random.Random("c08/%s/%d" % (ctx.seed, kk))), sbc
            except Exception as e:
                import traceback
                return kk, c, ("error", traceback.format_exc()), sbc
        with concurrent.futures.ThreadPoolExecutor(8) as ex:
            for kk, c, r, sbc in ex.map(one, [(k + i + 1, c) for i, c in enumerate(cs)]):
                if isinstance(r, tuple) and r and r[0] == "error":
                    ctx.inconclusive_because("checker error in combination: %s" % r[1].strip().splitlines()[-1])
                    r = None
                if r:
                    # re-base the listed inputs onto the shared sandbox
                    r = ({p.replace(os.path.realpath(sbc), os.path.realpath(sb)) for p in r[0]}, r[1])
                res[kk] = (c, r)
                shutil.rmtree(sbc, ignore_errors=True)
        k += len(cs)
        # influence by perturbation on a few representative combinations
        reps = [(c, r) for c, r in res.values() if r and c["gs"] in ("as-needed", "always") and not c["omit"]]
        chosen = [x for x in reps if x[0]["user_templates"] or x[0]["user_support"]][: ctx.pick(2, 6)] + \
                 [x for x in reps if not (x[0]["user_templates"] or x[0]["user_support"])][: ctx.pick(2, 6)]
        for c, (listed_inputs, real) in chosen:
            influence(ctx, sb, roots, parsed, main, c, listed_inputs, R)
        ctx.sample({"sandbox": idx, "roots": roots, "main_root": main, "combinations": len(cs), "example": cs[0]})
        shutil.rmtree(sb, ignore_errors=True)
    ctx.require("list_outputs_exact", 10)
    ctx.require("nonwriting_clean", 40)
    ctx.require("nonwriting_clean_populated", 20)
    ctx.require("audit_events_seen_in_real_runs", 50)
    ctx.require("influencing_files_listed", 5)
    ctx.require("opened_template_files_checked", 20)
