#!/usr/bin/env python3
"""Regenerates /verif/MANIFEST.json from the table below (keeps the manifest consistent and always valid)."""
import json
import os

HERE = os.path.dirname(os.path.dirname(os.path.abspath(__file__)))

# id -> (category, technique, level text, level note, design ref)
CHECKS = {
    "C15": ("exploration",
            "runtime monitor: reference line-splitter + output contracts on the real line-buffer loop, exhaustive chunk schedules",
            "Drives the real CodeGenerator._generate_with_line_buffer and SupportGenerator._copy_header_using_line_pps with "
            "every chunking of every text up to a small length over {a,space,tab,CR,LF}, random rich texts with schedules aimed "
            "inside CRLF, and the chunk streams Jinja really produces for the built-in templates (tee'd at the real call site), "
            "comparing the written stream with line-by-line application and with direct trim/limit/identity contracts. "
            "Exhaustive inside the stated bounds, sampled beyond.",
            "Trusts the 20-line reference splitter (LF/CRLF only, the code's own terminator definition) and Python's str.isspace "
            "as the widest whitespace definition.", "DESIGN.md §3 C15"),
    "C13": ("exploration",
            "runtime contracts (icontract) on the real deep_update + reference-precedence oracle over builder/CLI executions and context histories",
            "icontract post-conditions on the real deep_update (result equals a 15-line reference merge incl. DefaultValue rules; source "
            "unchanged) evaluated on every (recursive) call made by random merge histories, by LanguageContextBuilder.create() with 0-3 "
            "YAML files + overrides, and by the real CLI (--list-configuration read back); histories of 2-6 builders/contexts in one "
            "process re-read every earlier context after each creation. Sampled, not exhaustive.",
            "Trusts the reference merge and the documented language post-rules (Python forces asserts; C++ std shorthand applies its group as a unit).",
            "DESIGN.md §3 C13"),
}

NOT_YET = {}


def main():
    props = [json.loads(l) for l in open(os.path.join(HERE, "properties.jsonl"))]
    checks, na = [], []
    for p in props:
        pid = p["id"]
        if pid in CHECKS:
            cat, tech, text, note, ref = CHECKS[pid]
            checks.append({
                "property_id": pid,
                "quick_cmd": "./check %s --tier quick" % pid,
                "thorough_cmd": "./check %s --tier thorough" % pid,
                "evidence_file": "evidence/%s.json" % pid,
                "replay_cmd_template": "./check %s --replay {path}" % pid,
                "engine": "vlib",
                "level_claimed": {"category": cat, "text": text, "design_ref": ref},
                "level_note": note,
                "technique": tech,
            })
        else:
            na.append({"property_id": pid, "reason": NOT_YET.get(pid, "check not built yet in this session (planned, see DESIGN.md §3); not claimed until its monitor exists and is silent on the unchanged tree")})
    m = {
        "version": 1,
        "setup_cmd": "sh setup.sh",
        "hooks": {
            "guard": "NUNAVUT_VERIF",
            "enable": "no hooks are compiled into /repo: ./check sets NUNAVUT_VERIF=1 only for /verif's own launcher/drivers, which install "
                      "wrappers, audit hooks and contracts from outside; /repo is executed from its working tree via PYTHONPATH=/repo/src",
            "baseline_off_cmd": "cd /repo && env -u NUNAVUT_VERIF /venv/bin/python -m pytest -ra -q -p no:cacheprovider --timeout=900 --continue-on-collection-errors",
            "source_commits": [],
            "add_only": True,
        },
        "engines": [{"name": "vlib", "path": "vlib/", "serves_properties": sorted(CHECKS),
                     "kind_free_text": "runtime monitoring: real generator + generated artefacts executed under sanitizers / reference-model oracles / contracts"}],
        "checks": checks,
        "not_applicable": na,
        "notes": "Technique family: runtime monitoring and sanitizers. Exit codes: 0 held, 1 VIOLATION, 2 INCONCLUSIVE (deciding monitor not reached). "
                 "Known/fixed findings: KNOWN_FINDINGS.txt.",
    }
    with open(os.path.join(HERE, "MANIFEST.json"), "w") as f:
        json.dump(m, f, indent=1)
        f.write("\n")


if __name__ == "__main__":
    main()
