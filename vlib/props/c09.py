"""C09 - identifier stropping yields valid, unreserved, deterministic identifiers (or raises).

Three independent deciders observe every call of the real Language.filter_id:
 (1) a configuration-derived predicate re-implemented here (valid syntax; not in reserved_identifiers; matches no reserved
     pattern of 'all' or of the requested id type; Python: not a keyword/builtin);
 (2) the real toolchains: every distinct returned token is compiled as a declaration and as a macro name (C11, C++14)
     or as an assignment target (CPython);
 (3) determinism: cold/warm lru_cache, fresh Language objects, and fresh processes with different PYTHONHASHSEED.
Raising instead of returning is always acceptable.
"""
import builtins
import collections
import hashlib
import itertools
import json
import keyword
import os
import random
import re
import subprocess
import sys

from vlib import common

LEVEL = "exploration"
MANIFEST = {
    "category": "exploration",
    "technique": "runtime monitor on Language.filter_id: config-derived reserved-word predicate + real compilers/interpreter as validity oracle + cross-process determinism",
    "text": "Every string up to length k over a 19-symbol alphabet (letters incl. E/i/s/u, digits, underscore, space, tab, "
            "punctuation, non-ASCII, combining mark), every configured reserved word with prefix/suffix/case variants, "
            "pattern-targeted seeds and random unicode strings are pushed through the real filter_id of c, cpp and py for every "
            "id category and several stropping configurations; each returned token is judged by an independent re-implementation "
            "of 'reserved under this configuration', by gcc/clang/CPython accepting it as an identifier, and by cross-process / "
            "cache-state determinism. Exhaustive up to k (3 quick, 4 thorough), sampled beyond."
            " The pool includes identifier-adjacent Unicode: word characters that are not identifier characters (superscripts, circled digits), compatibility letters that NFKC-normalise to ASCII keywords and builtins (fullwidth, ligatures, long s, mathematical bold) and continue-only characters.",
    "note": "id type 'any' is judged against the union of the rules of all types (documented meaning of 'any'); configurations with "
            "enable_stropping=false are out of scope; the middle-of-identifier '__' rule of C++ is not part of the configuration.",
}
MANIFEST["text"] += " Several configurations of one language (differing only in reserved-pattern / encoding-rule tables, or in the C++ constructor convention) are kept alive in one process and asked the same input back to back; returned tokens are also judged against the configuration's encoding rules (nothing those rules replace may be left)."
MANIFEST["text"] += ' Language objects of one target are created and released one after the other with changing configurations, every answer judged against the configuration of the object that gave it.'

ID_TYPES = ["any", "path", "macro", "typedef", "function", "enum"]
ALPH = ["a", "z", "E", "i", "s", "u", "I", "t", "A", "_", "0", "9", " ", "\t", "-", ".", "é", "́", "x"]
VARIANTS = [
    ("default", {}),
    ("prefix_zz", {"stropping_prefix": "zz"}),
    # (the affixes of these variants cannot themselves form something an encoding rule replaces: a user who configures the suffix "_"
    #  for C++ gets "x__" for a reserved "x_", which no reserved list of that configuration forbids - the user's choice, not judged)
    ("suffix_only", {"stropping_prefix": "", "stropping_suffix": "_q"}),
    ("no_strop_affix", {"stropping_prefix": "", "stropping_suffix": ""}),
    ("enc_U", {"encoding_prefix": "U", "whitespace_encoding_char": "w"}),
    ("enc_underscore", {"encoding_prefix": "_e"}),
    # extra reserved words on top of the shipped list (the shipped list is read back and extended in make_lang)
    ("reserved_extra", {"reserved_identifiers+": ["sensorq", "alphaq", "Fooq", "xa", "zz"]}),
    # type-specific reserved patterns without an 'all' entry of their own
    ("type_patterns", {"reserved_token_patterns_by_type": {"path": ["^(con|aux|nul|prn)$"], "function": ["^(mainq|setupq|a[a-z])$"]}}),
    # differs from the shipped configuration in the pattern tables only (another reserved macro pattern, another encoding rule for enums)
    ("macro_patterns", {"reserved_token_patterns_by_type": {"macro": ["^MYQ_[A-Z]"]}, "token_encoding_rules_by_identifier_type": {"enum": ["q{2,}"]}}),
]
# C++ only: the allocator-aware constructor conventions reserve the name of the constructor's allocator parameter
CPP_VARIANTS = [
    ("leading_allocator", {"options": {"ctor_convention": "uses-leading-allocator", "allocator_type": "std::allocator", "allocator_include": "<memory>"}}),
    ("trailing_allocator", {"options": {"ctor_convention": "uses-trailing-allocator", "allocator_type": "std::allocator", "allocator_include": "<memory>"}}),
]


def variants_of(lname):
    return VARIANTS + (CPP_VARIANTS if lname == "cpp" else [])


def make_lang(name, overrides):
    from nunavut.lang import LanguageContextBuilder
    b = LanguageContextBuilder(include_experimental_languages=True).set_target_language(name)
    for k, v in overrides.items():
        if k.endswith("+"):
            shipped = LanguageContextBuilder(include_experimental_languages=True).set_target_language(name).create() \
                .get_target_language().get_config_value_as_list(k[:-1], default_value=[])
            k, v = k[:-1], list(shipped) + list(v)
        b.set_target_language_configuration_override(k, v)
    return b.create().get_target_language()


class Predicate:
    """Own reading of the configuration: what is reserved for an id type."""

    def __init__(self, lang):
        self.name = lang.name
        self.reserved = set(lang.get_config_value_as_list("reserved_identifiers", default_value=[]))
        if lang.name == "py":
            self.reserved |= set(keyword.kwlist) | set(dir(builtins))
        if lang.name == "cpp" and lang.get_option("ctor_convention", "default") != "default":
            self.reserved.add("allocator")     # the allocator parameter of every generated constructor under these conventions
        pats = lang.get_config_value_as_dict("reserved_token_patterns_by_type", default_value={})
        self.patterns = {k: [re.compile(p) for p in v] for k, v in pats.items()}
        enc = lang.get_config_value_as_dict("token_encoding_rules_by_identifier_type", default_value={})
        self.encoding = {k: [re.compile(p) for p in v] for k, v in enc.items()}

    def needs_encoding(self, tok, id_type):
        """The configuration wants part of this string encoded (so it is not 'already valid' under this configuration)."""
        types = sorted(self.encoding) if id_type.lower() == "any" else ("all", id_type.lower())
        return any(p.search(tok) for t in types for p in self.encoding.get(t, []))

    def syntactically_valid(self, tok):
        if self.name == "py":
            return tok.isidentifier() and tok.isascii() or (tok.isidentifier())
        return re.fullmatch(r"[A-Za-z_][A-Za-z0-9_]*", tok) is not None

    def why_bad(self, tok, id_type):
        if not isinstance(tok, str) or tok == "":
            return "empty or non-string token"
        if not self.syntactically_valid(tok):
            return "not a syntactically valid identifier"
        if tok in self.reserved:
            return "reserved identifier of the configuration"
        if self.name == "py" and keyword.iskeyword(tok):
            return "python keyword"
        # documented: 'any' is the union of the rules of every type; a specific type gets 'all' + its own rules
        types = sorted(self.patterns) if id_type.lower() == "any" else ("all", id_type.lower())
        for t in types:
            for p in self.patterns.get(t, []):
                if p.match(tok):
                    return "matches reserved pattern %r of type %r" % (p.pattern, t)
        # the encoding rules are the configuration's list of what may not appear in an identifier of this category (blanks,
        # characters outside the identifier alphabet, C++: leading / trailing double underscores): none of it may be left
        for t in (sorted(self.encoding) if id_type.lower() == "any" else ("all", id_type.lower())):
            for p in self.encoding.get(t, []):
                if p.search(tok):
                    return "still contains what encoding rule %r of type %r replaces" % (p.pattern, t)
        return None


def seeds_for(pred, r, nrand):
    out = []
    words = sorted(pred.reserved)
    if len(words) > 400:
        words = r.sample(words, 400)
    for w in words:
        out += [w, "_" + w, "__" + w, w + "_", w.upper(), w.capitalize(), "z" + w, w + "0", " " + w, w + " ", w[:-1],
                w + w, "_" + w + "_", w.swapcase(), "zX" + w, w.replace("_", " "), w.replace("_", "__")]
    out += ["allocator", "Allocator", "allocator_", "_allocator", "MYQ_A", "MYQ_FLAG", "MYQ_a", "MYQ", "myq_A", "aqqb", "qq", "aqq", "qqa", "aqb",
            "con", "aux", "nul", "prn", "mainq", "setupq", "sensorq", "alphaq", "Fooq", "sensor", "alpha", "conq", "ab", "az", "abc",
            "isalpha", "toX", "tox", "strx", "str", "memx", "wcsx", "int8_t", "uint_t", "intx_t", "atomic_a", "memory_a",
            "cnd_a", "mtx_a", "thrd_a", "tss_a", "E1", "EA", "E", "Ea", "FE_A", "INT8_MAX", "UINT_C", "INTx_MIN", "PRIx",
            "SCNX", "LC_A", "SIGA", "SIG_A", "TIME_A", "ATOMIC_A", "memory_order_a", "_A", "__a", "_a", "___A", "_", "__",
            "___", "_0", "0", "00", "0a", "a0", "a__b", "a_", "a__", "__a__", "_Ab", "_aB", "zX0041", "zX", "zx", "µ",
            "K", "ﬁ", "á", "\U0001F600", "x\x00y", "a\nb", "a\r\nb", " ", "-", "--", "a-b", "a.b", "a b",
            "a  b", " a", "a ", "\t", " ", "  ", "if ", " if", "i f", "1if", "if1", "iF", "If", "IF", "_if", "__if", "if_",
            "_If", "__IF", "class", "Class", "None", "none", "True", "print", "len", "self", "cls", "match", "case", "type",
            "namespace", "template", "and", "and_eq", "NULL", "nullptr", "bool", "true", "asm", "_Bool", "_Alignas",
            "restrict", "defined", "__FILE__", "__cplusplus", "__func__", "errno", "EOF", "stdin", "main", "std", "uint8_t"]
    # identifier-adjacent Unicode: "word" characters that are not identifier characters (superscripts, circled and other numerics),
    # compatibility letters that NFKC-normalise to ASCII (fullwidth, ligatures, long s, mathematical bold: CPython normalises
    # identifiers, so these can spell keywords and builtins), continue-only characters (middle dot, combining marks, other digits)
    out += ["a\u00b2", "x\u2460", "\u00b2", "a\u00bd", "\uff49\uff46", "\ufb01nally", "clas\u017f", "pa\u017f\u017f", "\U0001d422\U0001d41f",
            "\u017ftr", "\uff50rint", "\uff24ef", "de\uff46", "a\u00b7b", "\u00b7a", "a\u0301", "\u0301a", "\u0661a", "a\u0661", "\u2118", "\u212e",
            "\u2160", "\u2170f", "N\uff4fne", "\uff34rue", "\u1e9e", "\u00aa", "\u00aab", "x\u200c", "x\u200dy", "\ufe33", "a\ufe33b", "\uff3f", "a\uff3f"]
    for w in ("if", "in", "is", "as", "or", "def", "for", "class", "pass", "str", "int", "len", "None", "True"):
        out += [w[:-1] + chr(0xff00 + ord(w[-1]) - 0x20), chr(0xff00 + ord(w[0]) - 0x20) + w[1:]]
    cats = ["abcxyz", "ABCXYZE", "0123456789", "___", "  \t", "-.+*/\\'\"<>&;", "éüñµ", "漢字́‍", "\U0001F600\U00010000",
            "\u00b2\u00b3\u00b9\u2460\u00bd\u0661", "\uff49\uff46\ufb01\u017f\U0001d422\uff3f", "\u00b7\u0301\u200c\ufe33"]
    for _ in range(nrand):
        n = r.choice([1, 2, 3, 5, 8, 13, 21, 40, 64])
        s = "".join(r.choice(r.choice(cats)) for _ in range(n))
        out.append(s)
    return out


def exhaustive(k):
    for n in range(1, k + 1):
        for t in itertools.product(ALPH, repeat=n):
            yield "".join(t)


HANDLER_CALLS = collections.Counter()


def shard_worker(args):
    """One (language, config variant) pair: all id types, all strings of its share."""
    lname, vname, overrides, k, seed, nrand, shard, nshards = args
    r = random.Random("c09/%s/%s/%s/%s" % (seed, lname, vname, shard))
    handler_calls = HANDLER_CALLS
    before = collections.Counter(HANDLER_CALLS)
    # count failure-handler executions (wrappers installed before the encoder is built)
    import nunavut.lang.c as LC
    import nunavut.lang.cpp as LCPP

    def wrap(cls, attr):
        orig = cls.__dict__[attr].__func__

        def w(encoder, stropped, token_type, pending_error):
            handler_calls["%s.%s" % (cls.__module__.split(".")[-1], attr)] += 1
            return orig(encoder, stropped, token_type, pending_error)
        setattr(cls, attr, staticmethod(w))
    if not getattr(LC.Language, "_verif_wrapped", False):
        wrap(LC.Language, "_handle_stropping_failure")
        wrap(LCPP.Language, "_handle_stropping_or_encoding_failure")
        LC.Language._verif_wrapped = True
    try:
        lang = make_lang(lname, overrides)
    except Exception as e:
        return dict(error="cannot build language %s/%s: %r" % (lname, vname, e))
    pred = Predicate(lang)
    res = dict(lang=lname, variant=vname, calls=0, returned=0, raised=collections.Counter(), refs=[], unchanged_checked=0,
               tokens=set(), handler_calls=None, digest=None, changed=0, sample=[], refmech=collections.Counter())
    h = hashlib.sha256()
    strings = []
    if shard == 0:
        strings += seeds_for(pred, r, nrand)
    for i, s in enumerate(exhaustive(k)):
        if i % nshards == shard:
            strings.append(s)
    fresh = None
    for s in strings:
        for idt in ID_TYPES:
            res["calls"] += 1
            try:
                tok = lang.filter_id(s, idt)
            except Exception as e:
                res["raised"][type(e).__name__] += 1
                h.update(("%r|%s|!%s\n" % (s, idt, type(e).__name__)).encode())
                continue
            res["returned"] += 1
            if tok != s and len(res["sample"]) < 3:
                res["sample"].append((s, tok))
            h.update(("%r|%s|%r\n" % (s, idt, tok)).encode())
            why = pred.why_bad(tok, idt)
            if why:
                res["refmech"][why.split(" of ")[0][:40]] += 1
                if len(res["refs"]) < 12:
                    res["refs"].append(("returned token %r for input %r type %s: %s" % (tok, s, idt, why),
                                        dict(lang=lname, variant=vname, overrides=overrides, input=s, id_type=idt, token=tok, why=why)))
            else:
                res["tokens"].add(tok)
            # already valid and unreserved -> unchanged
            if pred.why_bad(s, idt) is None and not pred.needs_encoding(s, idt):
                res["unchanged_checked"] += 1
                if tok != s:
                    res["refmech"]["valid input changed"] += 1
                    if len(res["refs"]) < 12:
                        res["refs"].append(("valid unreserved input %r (type %s) was changed to %r" % (s, idt, tok),
                                            dict(lang=lname, variant=vname, overrides=overrides, input=s, id_type=idt, token=tok)))
            elif tok != s:
                res["changed"] += 1
            # determinism inside the process: warm cache, and now and then a fresh Language object (cold cache)
            if res["calls"] % 7 == 0:
                again = lang.filter_id(s, idt)
                if again != tok:
                    res["refs"].append(("warm-cache result differs: %r vs %r" % (tok, again), dict(lang=lname, input=s, id_type=idt)))
            if res["calls"] % 997 == 0:
                fresh = make_lang(lname, overrides)
                other = fresh.filter_id(s, idt)
                if other != tok:
                    res["refs"].append(("fresh Language object gives %r, earlier %r" % (other, tok), dict(lang=lname, input=s, id_type=idt)))
    res["digest"] = h.hexdigest()
    res["handler_calls"] = collections.Counter({k: v - before.get(k, 0) for k, v in HANDLER_CALLS.items()})
    res["nstrings"] = len(strings)
    return res


def interleaved_worker(args):
    """Several configurations of ONE language alive in one process, asked the same (string, category) back to back in rotating
    order: every answer is judged against the configuration that gave it (state shared between encoders shows as an answer that
    belongs to another configuration)."""
    lname, seed, nrand = args
    r = random.Random("c09i/%s/%s" % (seed, lname))
    vs = variants_of(lname)
    langs, preds = [], []
    for vname, ov in vs:
        try:
            l = make_lang(lname, ov)
        except Exception as e:
            return dict(error="cannot build language %s/%s: %r" % (lname, vname, e))
        langs.append(l)
        preds.append(Predicate(l))
    strings = []
    for pr in preds:
        strings += seeds_for(pr, r, 0)[-400:]
    strings += seeds_for(preds[0], r, nrand)
    strings = list(dict.fromkeys(strings))
    res = dict(lang=lname, calls=0, refs=[], refmech=collections.Counter(), unchanged_checked=0)
    for n, s_ in enumerate(strings):
        for idt in ID_TYPES:
            order = list(range(len(vs)))
            order = order[n % len(vs):] + order[:n % len(vs)]
            if n % 2:
                order.reverse()
            for vi in order:
                res["calls"] += 1
                try:
                    tok = langs[vi].filter_id(s_, idt)
                except Exception:
                    continue
                why = preds[vi].why_bad(tok, idt)
                if why:
                    res["refmech"][why.split(" of ")[0][:40]] += 1
                    if len(res["refs"]) < 12:
                        res["refs"].append(("with several configurations of %s alive in one process, %s returned token %r for input %r type %s: %s"
                                            % (lname, vs[vi][0], tok, s_, idt, why),
                                            dict(lang=lname, variant=vs[vi][0], alive=[v for v, _ in vs], input=s_, id_type=idt, token=tok, why=why)))
                elif preds[vi].why_bad(s_, idt) is None and not preds[vi].needs_encoding(s_, idt):
                    res["unchanged_checked"] += 1
                    if tok != s_:
                        res["refmech"]["valid input changed"] += 1
                        if len(res["refs"]) < 12:
                            res["refs"].append(("with several configurations of %s alive in one process, %s changed the valid unreserved input %r (type %s) to %r"
                                                % (lname, vs[vi][0], s_, idt, tok),
                                                dict(lang=lname, variant=vs[vi][0], alive=[v for v, _ in vs], input=s_, id_type=idt, token=tok)))
    return res


def churn_worker(args):
    """Language objects of one target created and released one after the other, each with another stropping configuration (what a
    program that generates for several configurations does): every answer belongs to the configuration of the object that gave it."""
    lname, seed, rounds = args
    import gc
    r = random.Random("c09c/%s/%s" % (seed, lname))
    vs = variants_of(lname)
    res = dict(lang=lname, calls=0, refs=[], refmech=collections.Counter(), objects=0)
    probes = ["sensorq", "alphaq", "mainq", "setupq", "ab", "MYQ_A", "allocator", "if", "x y", "_Ab", "con", "aqq", "Fooq", "zz", "xa", "int8_t", "EA", "strx", "1a", "a__"]
    for k in range(rounds):
        vname, ov = vs[r.randrange(len(vs))]
        try:
            lang = make_lang(lname, ov)
        except Exception as e:
            return dict(error="cannot build language %s/%s: %r" % (lname, vname, e))
        pred = Predicate(lang)
        res["objects"] += 1
        for s_ in probes:
            for idt in ("any", "macro", "function", "path"):
                res["calls"] += 1
                try:
                    tok = lang.filter_id(s_, idt)
                except Exception:
                    continue
                why = pred.why_bad(tok, idt)
                if why is None and pred.why_bad(s_, idt) is None and not pred.needs_encoding(s_, idt) and tok != s_:
                    why = "valid unreserved input was changed"
                if why:
                    res["refmech"][why.split(" of ")[0][:40]] += 1
                    if len(res["refs"]) < 8:
                        res["refs"].append(("object %d of %s created in this process (configuration %s) returned token %r for input %r type %s: %s" % (k, lname, vname, tok, s_, idt, why),
                                            dict(lang=lname, variant=vname, round=k, input=s_, id_type=idt, token=tok, why=why)))
        del lang, pred
        if k % 3 == 0:
            gc.collect()
    return res


def safe_sample(res):
    out = []
    for s, t in res.get("sample", []):
        out.append({"input": s, "token": t})
    return out


def toolchain_check(ctx, tokens_by_lang):
    """Decider 2: the real compilers / interpreter."""
    d = ctx.sub("tc")
    for lname, toks in tokens_by_lang.items():
        toks = sorted(toks)
        if not toks:
            continue
        if lname == "py":
            for t in toks:
                ctx.count("toolchain_tokens")
                try:
                    compile("%s = 1\n" % t, "<tok>", "exec")
                    compile("def %s(%s): pass\n" % (t, t), "<tok>", "exec")
                except SyntaxError as e:
                    ctx.refute(None, "CPython rejects returned token %r as an identifier: %s" % (t, e.msg), dict(lang="py", token=t))
            continue
        ext, comp, std = ("c", "gcc", "-std=c11") if lname == "c" else ("cpp", "g++", "-std=c++14")
        for form in ("decl", "macro"):
            src = os.path.join(d, "%s_%s.%s" % (lname, form, ext))
            with open(src, "w") as f:
                for i, t in enumerate(toks):
                    if form == "decl":
                        f.write("void verif_f%d(void);\nvoid verif_f%d(void) { int %s = 0; (void)%s; }\n" % (i, i, t, t))
                    else:
                        f.write("#define %s 1\n#undef %s\n" % (t, t))
            for cc in ([comp, "clang" if lname == "c" else "clang++"]):
                r = common.run([cc, std, "-fsyntax-only", "-w", "-ferror-limit=0" if "clang" in cc else "-fmax-errors=0", src], timeout=600)
                ctx.count("toolchain_tokens", len(toks))
                ctx.count("toolchain_runs")
                if r.returncode == -999:
                    ctx.inconclusive_because("compiler watchdog")
                    continue
                if r.returncode != 0:
                    bad = set()
                    for line in r.stderr.splitlines():
                        m = re.match(r"[^:]+:(\d+):\d+: (?:fatal )?error", line)
                        if m:
                            ln = int(m.group(1))
                            bad.add(toks[(ln - 1) // 2])
                    if not bad:
                        ctx.refute(None, "%s failed on the token batch without a locatable error" % cc, dict(stderr=r.stderr[:2000]))
                    for t in sorted(bad)[:20]:
                        ctx.refute(None, "%s rejects returned token %r (%s form, %s)" % (cc, t, form, std), dict(lang=lname, token=t, form=form))


CHILD = r"""
import sys, json, hashlib
sys.path.insert(0, %(verif)r)
from vlib.props import c09
out = {}
combos = %(combos)r
order = %(order)r
if order == "reversed": combos = combos[::-1]
elif order == "shuffled":
    import random; random.Random(7).shuffle(combos)
for lname, vname, ov in combos:
    res = c09.shard_worker((lname, vname, ov, %(k)d, %(seed)d, %(nrand)d, 0, %(nshards)d))
    out[lname + "/" + vname] = res.get("digest")
print(json.dumps(out))
"""


def cross_process(ctx, combos, k, nrand, nshards, digests0):
    """Decider 3: fresh processes with other hash seeds must reproduce shard 0 of every combo bit for bit."""
    procs = []
    # each child uses another hash seed AND another order of configurations: a result that depends on which language /
    # configuration was used earlier in the process (leaked state) shows up as a digest mismatch
    parts = 4    # the combinations are dealt to several children per (hash seed, order) so that they run side by side
    for hs, order in (("1", "given"), ("12345", "reversed"), ("random", "shuffled")):
        for part in range(parts):
            code = CHILD % dict(verif=common.VERIF, combos=combos[part::parts], k=k, seed=ctx.seed, nrand=nrand, nshards=nshards, order=order)
            procs.append((hs, subprocess.Popen([common.PY, "-c", code], env=common.child_env(PYTHONHASHSEED=hs),
                                               stdout=subprocess.PIPE, stderr=subprocess.PIPE, text=True)))
    for hs, p in procs:
        try:
            out, err = p.communicate(timeout=1800)
        except subprocess.TimeoutExpired:
            p.kill()
            ctx.inconclusive_because("cross-process child watchdog")
            continue
        if p.returncode != 0:
            ctx.inconclusive_because("cross-process child failed: %s" % err[-300:])
            continue
        got = json.loads(out.strip().splitlines()[-1])
        for key, dg in got.items():
            ctx.count("cross_process_comparisons")
            if dg != digests0.get(key):
                ctx.refute(None, "filter_id results differ between processes (PYTHONHASHSEED=%s) for %s" % (hs, key),
                           dict(combo=key, hashseed=hs, digest_here=digests0.get(key), digest_child=dg))


def run(ctx):
    k = ctx.pick(3, 4)
    nrand = ctx.pick(1500, 20000)
    nshards = ctx.pick(2, 12)
    ctx.rule = ("case = (language, stropping configuration, id category, input string); strings enumerated exhaustively up to length %d "
                "over %d symbols + reserved-word variants + pattern seeds + %d random unicode strings per combination; "
                "distinct = distinct returned tokens (non-trivial = token differs from its input, i.e. stropping/encoding acted)" % (k, len(ALPH), nrand))
    combos = [(l, v, ov) for l in ("c", "cpp", "py") for v, ov in variants_of(l)]
    jobs = [(l, v, ov, k, ctx.seed, nrand, s, nshards) for (l, v, ov) in combos for s in range(nshards)]
    import time
    t0 = time.time()
    results = common.pmap(shard_worker, jobs)
    ctx.extra.setdefault("phase_seconds", {})["shards"] = round(time.time() - t0, 1); t0 = time.time()
    tokens_by_lang = collections.defaultdict(set)
    digests0 = {}
    changed_tokens = set()
    for job, res in zip(jobs, results):
        if "error" in res:
            ctx.inconclusive_because(res["error"])
            continue
        ctx.count("evaluations", res["calls"])
        ctx.count("returned", res["returned"])
        ctx.count("unchanged_checked", res["unchanged_checked"])
        ctx.count("stropped_or_encoded", res["changed"])
        for kx, v in res["raised"].items():
            ctx.count("raised[%s]" % kx, v)
        for kx, v in res["handler_calls"].items():
            ctx.count("handler[%s]" % kx, v)
        for kx, v in res["refmech"].items():
            ctx.count("refuted[%s]" % kx, v)
        tokens_by_lang[res["lang"]] |= res["tokens"]
        if job[6] == 0:
            digests0["%s/%s" % (res["lang"], res["variant"])] = res["digest"]
            for smp in safe_sample(res)[:1]:
                ctx.sample(dict(smp, lang=res["lang"], variant=res["variant"]))
        for what, wit in res["refs"]:
            ctx.refute(None, what, wit)
    for l, toks in tokens_by_lang.items():
        ctx.distinct_many((l, t) for t in toks)
        ctx.count("distinct_tokens[%s]" % l, len(toks))
    for res in common.pmap(interleaved_worker, [(l, ctx.seed, ctx.pick(60, 5000)) for l in ("c", "cpp", "py")]):
        if "error" in res:
            ctx.inconclusive_because(res["error"])
            continue
        ctx.count("evaluations", res["calls"])
        ctx.count("interleaved_configuration_calls", res["calls"])
        ctx.count("interleaved_unchanged_checked", res["unchanged_checked"])
        for kx, v in res["refmech"].items():
            ctx.count("refuted[interleaved: %s]" % kx, v)
        for what, wit in res["refs"]:
            ctx.refute(None, what, wit)
    ctx.extra["phase_seconds"]["interleaved"] = round(time.time() - t0, 1); t0 = time.time()
    for res in common.pmap(churn_worker, [(l, ctx.seed * 10 + j, ctx.pick(100, 1500)) for l in ("c", "cpp", "py") for j in range(2)]):
        if "error" in res:
            ctx.inconclusive_because(res["error"])
            continue
        ctx.count("evaluations", res["calls"])
        ctx.count("language_objects_created_and_released", res["objects"])
        for kx, v in res["refmech"].items():
            ctx.count("refuted[churn: %s]" % kx, v)
        for what, wit in res["refs"]:
            ctx.refute(None, what, wit)
    ctx.extra["phase_seconds"]["churn"] = round(time.time() - t0, 1); t0 = time.time()
    toolchain_check(ctx, tokens_by_lang)
    ctx.extra["phase_seconds"]["toolchain"] = round(time.time() - t0, 1); t0 = time.time()
    cross_process(ctx, combos, k, nrand, nshards, digests0)
    ctx.extra["phase_seconds"]["cross_process"] = round(time.time() - t0, 1)
    ctx.sample({"input": "if", "c/any": "_if", "py/any": "if_"})
    ctx.extra["exhaustive_bounds"] = "all strings of length 1..%d over %r" % (k, ALPH)
    ctx.require("returned", 50000)
    ctx.require("unchanged_checked", 1000)
    ctx.require("handler[c._handle_stropping_failure]", 100)
    ctx.require("handler[cpp._handle_stropping_or_encoding_failure]", 100)
    ctx.require("toolchain_tokens", 1000)
    ctx.require("interleaved_configuration_calls", 10000)
    ctx.require("language_objects_created_and_released", 300)
    ctx.require("cross_process_comparisons", len(combos) * 3)
    ctx.assumptions += ["'any' is judged against the union of all types' rules (documented)", "raising any exception is acceptable",
                        "C/C++ validity: ASCII [A-Za-z_][A-Za-z0-9_]* (what the configured encoding rules aim at); Python: str.isidentifier()"]
