#!/usr/bin/env python3
"""Regenerates /verif/MANIFEST.json from the MANIFEST dict literal of every vlib/props/cXX.py (keeps it consistent and valid)."""
import ast
import json
import os

HERE = os.path.dirname(os.path.dirname(os.path.abspath(__file__)))
NOT_APPLICABLE = {}   # id -> reason, for properties deliberately not claimed


def module_meta(pid):
    p = os.path.join(HERE, "vlib", "props", pid.lower() + ".py")
    if not os.path.exists(p):
        return None
    tree = ast.parse(open(p, encoding="utf-8").read())
    for node in tree.body:
        if isinstance(node, ast.Assign) and any(getattr(t, "id", None) == "MANIFEST" for t in node.targets):
            return ast.literal_eval(node.value)
    return None


def main():
    props = [json.loads(l) for l in open(os.path.join(HERE, "properties.jsonl"))]
    checks, na, served = [], [], []
    for p in props:
        pid = p["id"]
        m = None if pid in NOT_APPLICABLE else module_meta(pid)
        if m:
            served.append(pid)
            checks.append({
                "property_id": pid,
                "quick_cmd": "./check %s --tier quick" % pid,
                "thorough_cmd": "./check %s --tier thorough" % pid,
                "evidence_file": "evidence/%s.json" % pid,
                "replay_cmd_template": "./check %s --replay {path}" % pid,
                "engine": "vlib",
                "level_claimed": {"category": m["category"], "text": m["text"], "design_ref": "DESIGN.md §3 %s" % pid},
                "level_note": m["note"],
                "technique": m["technique"],
            })
        else:
            na.append({"property_id": pid, "reason": NOT_APPLICABLE.get(
                pid, "check not built yet in this session (planned, see DESIGN.md §3); not claimed until its monitor exists "
                     "and is silent on the unchanged tree")})
    m = {
        "version": 1,
        "setup_cmd": "sh setup.sh",
        "hooks": {
            "guard": "NUNAVUT_VERIF",
            "enable": "no hooks are compiled into /repo: ./check sets NUNAVUT_VERIF=1 only for /verif's own launcher/drivers, which "
                      "install wrappers, audit hooks and contracts from outside; /repo is executed from its working tree via "
                      "PYTHONPATH=/repo/src",
            "baseline_off_cmd": "cd /repo && env -u NUNAVUT_VERIF /venv/bin/python -m pytest -ra -q -p no:cacheprovider "
                                "--timeout=900 --continue-on-collection-errors",
            "source_commits": [],
            "add_only": True,
        },
        "engines": [{"name": "vlib", "path": "vlib/", "serves_properties": served,
                     "kind_free_text": "runtime monitoring: real generator + generated artefacts executed under sanitizers / "
                                       "reference-model oracles / contracts"}],
        "checks": checks,
        "not_applicable": na,
        "notes": "Technique family: runtime monitoring and sanitizers. Exit codes: 0 held, 1 VIOLATION, 2 INCONCLUSIVE (deciding monitor "
                 "not reached). Known/fixed findings: KNOWN_FINDINGS.txt.",
    }
    with open(os.path.join(HERE, "MANIFEST.json"), "w") as f:
        json.dump(m, f, indent=1)
        f.write("\n")
    print("manifest: %d checks, %d not claimed" % (len(checks), len(na)))


if __name__ == "__main__":
    main()
