"""C13 - configuration sources are merged with a fixed precedence; deep union; sources unmodified; earlier contexts stable.

Monitors: (A) icontract post-conditions on the real deep_update (result == reference merge, source unchanged) driven with
random nested maps and merge *sequences* whose earlier sources are re-verified after every later merge; (B) reference
precedence (built-in < earlier file < later file < explicit override, DefaultValue never displaces explicit) against the
real LanguageContextBuilder; (C) histories of builders/contexts in one process with all earlier contexts' reports
re-read after every creation; (D) the real CLI (--list-configuration) against the same reference.
"""
import copy
import os
import pathlib
import random
import collections
import collections.abc

import yaml

from vlib import common

LEVEL = "exploration"
MANIFEST = {
    "category": "exploration",
    "technique": "runtime contracts (icontract) on the real deep_update + reference-precedence oracle over builder/CLI executions and context histories",
    "text": "icontract post-conditions on the real deep_update (result equals a 15-line reference merge incl. DefaultValue rules; source "
            "unchanged) evaluated on every (recursive) call made by random merge histories, by LanguageContextBuilder.create() with 0-3 "
            "YAML files + overrides, and by the real CLI (--list-configuration read back); histories of 2-6 builders/contexts in one "
            "process re-read every earlier context after each creation. Sampled, not exhaustive."
            " Configuration file lists include repeated files (A B A).",
    "note": "Trusts the reference merge and the documented language post-rules (Python forces asserts; C++ std shorthand applies its group as a unit).",
}
MANIFEST["text"] += ' Overrides also reach the tables nested inside the built-in configuration (C++ std shorthand groups, comment styles).'
MANIFEST["text"] += ' A reused builder is also given a configuration file between two create() calls: the explicit values still beat the file in the context created last.'


# ------------------------------------------------------------------------------------------------ reference
def DV():
    from nunavut._utilities import DefaultValue
    return DefaultValue


def ref_merge(target, source):
    """Deep union; later wins; a DefaultValue only fills gaps or replaces another DefaultValue."""
    D = DV()
    out = copy.deepcopy(target) if isinstance(target, dict) else {}
    for k, v in source.items():
        if isinstance(v, collections.abc.Mapping):
            base = out.get(k)
            out[k] = ref_merge(base if isinstance(base, dict) else {}, v)
        else:
            if isinstance(v, D) and k in out and not isinstance(out[k], D):
                continue
            out[k] = copy.deepcopy(v)
    return out


def unwrap(x):
    D = DV()
    if isinstance(x, D):
        return unwrap(x.value)
    if isinstance(x, collections.abc.Mapping):
        return {k: unwrap(v) for k, v in x.items()}
    if isinstance(x, list):
        return [unwrap(v) for v in x]
    return x


def marked(x):
    """Structure with default-ness made explicit (so that default-ness after a merge is compared too)."""
    D = DV()
    if isinstance(x, D):
        return ("DEFAULT", marked(x.value))
    if isinstance(x, collections.abc.Mapping):
        return {k: marked(v) for k, v in x.items()}
    if isinstance(x, list):
        return [marked(v) for v in x]
    return x


# ------------------------------------------------------------------------------------------------ contracts
class DeepUpdateContractBroken(Exception):
    pass


CONTRACT_EVALS = collections.Counter()


def install_contract():
    import icontract
    import nunavut._utilities as U
    import nunavut.lang._config as C
    if getattr(U.deep_update, "_verif_wrapped", False):
        return

    def snap_target(target, source):
        return copy.deepcopy(target)

    def snap_source(target, source):
        return copy.deepcopy(source)

    def result_is_reference_merge(target, source, result, OLD):
        CONTRACT_EVALS["deep_update.post"] += 1
        if not isinstance(OLD.t, collections.abc.Mapping):
            return marked(result) == marked(OLD.s)
        return marked(result) == marked(ref_merge(OLD.t, OLD.s))

    def source_unchanged(target, source, result, OLD):
        CONTRACT_EVALS["deep_update.source"] += 1
        return marked(source) == marked(OLD.s)

    real = U.deep_update
    wrapped = icontract.snapshot(snap_target, name="t")(
        icontract.snapshot(snap_source, name="s")(
            icontract.ensure(result_is_reference_merge, error=lambda target, source, result: DeepUpdateContractBroken(
                "result differs from reference merge"))(
                icontract.ensure(source_unchanged, error=lambda target, source, result: DeepUpdateContractBroken(
                    "source document modified"))(real))))
    wrapped._verif_wrapped = True
    U.deep_update = wrapped      # recursion resolves the module global, so nested levels are checked as well
    C.deep_update = wrapped
    import nunavut
    if hasattr(nunavut, "deep_update"):
        nunavut.deep_update = wrapped


# ------------------------------------------------------------------------------------------------ generators
KEYS = ["a", "b", "c", "options", "x", "named_values"]
SCALARS = [0, 1, True, False, "s", "t", None, 3.5, "", "c++17"]


def rmap(R, d=0, allow_default=True, allow_none=True):
    D = DV()
    m = {}
    for k in R.sample(KEYS, R.randint(0, 4)):
        c = R.random()
        if d < 3 and c < 0.4:
            m[k] = rmap(R, d + 1, allow_default, allow_none)
        elif c < 0.5:
            m[k] = [R.randint(0, 3), {"l": R.randint(0, 3)}]
        else:
            v = R.choice(SCALARS)
            if v is None and not allow_none:
                v = "n"
            m[k] = D(v) if (allow_default and R.random() < 0.25) else v
    return m


def part_a(ctx, ncases):
    """deep_update under contract + histories of merges with re-verification of every earlier source."""
    from nunavut import _utilities as U
    R = random.Random("c13a/%s" % ctx.seed)
    for i in range(ncases):
        t = rmap(R)
        srcs = [rmap(R) for _ in range(R.randint(1, 4))]
        snaps = [copy.deepcopy(s) for s in srcs]
        exp = copy.deepcopy(t)
        got = copy.deepcopy(t)
        ctx.count("evaluations")
        ctx.count("merge_histories")
        shape = (len(srcs), tuple(sorted(t)), tuple(tuple(sorted(s)) for s in srcs))
        ctx.distinct(("a", common.sha(repr((marked(t), [marked(s) for s in srcs])))))
        try:
            for j, s in enumerate(srcs):
                exp = ref_merge(exp, s)
                got = U.deep_update(got, s)
                ctx.count("merge_steps")
                if marked(got) != marked(exp):
                    ctx.refute(None, "deep_update result differs from reference merge at step %d" % j,
                               dict(target=marked(t), sources=[marked(x) for x in snaps], got=marked(got), expected=marked(exp)))
                    break
                for k in range(j + 1):
                    if marked(srcs[k]) != marked(snaps[k]):
                        mech = "deep-update-aliases-source-map" if k < j else None
                        ctx.refute(mech, "source document %d modified by merge step %d" % (k, j),
                                   dict(target=marked(t), sources=[marked(x) for x in snaps], modified_index=k,
                                        now=marked(srcs[k])))
                        raise StopIteration
        except StopIteration:
            pass
        except DeepUpdateContractBroken as e:
            ctx.refute(None, "contract on deep_update: %s" % e, dict(target=marked(t), sources=[marked(x) for x in snaps]))
    ctx.sample({"target": marked(t), "sources": [marked(s) for s in snaps], "merged": marked(exp)})


# ------------------------------------------------------------------------------------------------ builder level
CPP_STDS = ["c++14", "c++17", "c++20", "c++17-pmr", "cetl++14-17"]
OPTION_DOMAIN = {
    "c": {"target_endianness": ["any", "big", "little"], "omit_float_serialization_support": [True, False],
          "enable_serialization_asserts": [True, False], "enable_override_variable_array_capacity": [True, False],
          "cast_format": ["(({type}) {value})", "({type}){value}"], "std": ["c11", "c99"]},
    "cpp": {"target_endianness": ["any", "big", "little"], "omit_float_serialization_support": [True, False],
            "enable_serialization_asserts": [True, False], "enable_override_variable_array_capacity": [True, False],
            "std": CPP_STDS, "cast_format": ["static_cast<{type}>({value})", "({type}){value}"],
            "variable_array_type_include": ["<vector>", '"my.hpp"'], "allocator_is_default_constructible": [True, False],
            "variable_array_type_constructor_args": ["", "{MAX_SIZE}"]},
    "py": {"target_endianness": ["any", "little"], "enable_serialization_asserts": [True, False],
           "omit_float_serialization_support": [True, False]},
    "html": {"target_endianness": ["any"]},
}
TOP_KEYS = {"extension": [".h", ".hpp", ".x", ".py"], "namespace_file_stem": ["_", "index", "ns"],
            "enable_stropping": [True, False], "stropping_prefix": ["_", "zz"], "limit_empty_lines": [0, 1, 2]}


def rand_section(R, lang, allow_default, p=0.5):
    D = DV()
    m = {}
    if R.random() < 0.8:
        o = {}
        for k, dom in OPTION_DOMAIN[lang].items():
            if R.random() < p:
                v = R.choice(dom)
                o[k] = D(v) if (allow_default and R.random() < 0.3) else v
        if R.random() < 0.3:
            o["custom_%d" % R.randint(0, 2)] = R.choice([1, "z", {"n": R.randint(0, 3)}])
        m["options"] = o
    for k, dom in TOP_KEYS.items():
        if R.random() < 0.25:
            m[k] = R.choice(dom)
    if R.random() < 0.2:
        m["custom_map"] = {"p": R.randint(0, 3), "q": {"r": R.randint(0, 3)}}
    if R.random() < 0.15:
        m["named_values"] = {"extra_%d" % R.randint(0, 2): "v%d" % R.randint(0, 9)}
    if R.random() < 0.25:
        # list-valued keys: lists are replaced as a whole by a later source; nobody may grow or share them
        m["reserved_identifiers"] = R.choice([["payloadq"], ["payloadq", "otherq"], []])
    if lang == "cpp" and R.random() < 0.3:
        # keys inside the built-in tables that themselves hold tables (the std shorthand groups, the comment styles): a deep union
        # reaches them, and nothing a builder merges there may show up in another builder's or an earlier context's configuration
        if R.random() < 0.5:
            m["defaults"] = {R.choice(["c++17-pmr", "cetl++14-17"]): R.choice([
                {"allocator_type": "verifq::pool_allocator", "allocator_include": '"verifq/pool.hpp"'}, {"variable_array_type_constructor_args": "{MAX_SIZE}U"},
                {"allocator_is_default_constructible": R.choice([True, False])}])}
        else:
            m["comment_styles"] = {R.choice(["cpp-doxygen", "cpp", "javadoc", "c", "qt"]): {R.choice(["prefix", "comment", "suffix"]): R.choice(["//!", "//! ", " *!"])}}
    return m


def expected_section(lang, base, fmaps, over):
    """Reference precedence: built-in < files in order < explicit overrides; then language-specific post rules."""
    exp = copy.deepcopy(base)
    for m in fmaps:
        exp = ref_merge(exp, m)
    exp = ref_merge(exp, over)
    ee = unwrap(exp)
    if lang == "py":
        if "options" in ee:
            ee["options"]["enable_serialization_asserts"] = True   # documented: always on for Python
    if lang == "cpp":
        std = ee.get("options", {}).get("std")
        group = ee.get("defaults", {}).get(std)
        if group:                                                            # the shorthand sets its group as a unit
            ee["options"].update(copy.deepcopy(group))
    return ee


def base_section(lang):
    from nunavut.lang import LanguageClassLoader
    return copy.deepcopy(LanguageClassLoader().config.sections()["nunavut.lang." + lang])


def context_reports(lctx):
    """Everything a context reports about its target language (effective values)."""
    lang = lctx.get_target_language()
    rep = {"name": lang.name, "extension": lang.extension, "stem": lang.namespace_output_stem,
           "options": unwrap(dict(lang.get_options()))}
    sect = "nunavut.lang." + lang.name
    rep["section"] = unwrap(lctx.config.sections()[sect])
    for k in ("enable_stropping", "stropping_prefix", "limit_empty_lines"):
        try:
            rep["cfg." + k] = lang.get_config_value(k, "<unset>")
        except Exception as e:
            rep["cfg." + k] = "raises %s" % type(e).__name__
    return copy.deepcopy(rep)


def part_b(ctx, ncases):
    from nunavut.lang import LanguageContextBuilder
    R = random.Random("c13b/%s" % ctx.seed)
    d = pathlib.Path(ctx.sub("yaml"))
    bases = {l: base_section(l) for l in OPTION_DOMAIN}
    for i in range(ncases):
        lang = R.choice(["c", "cpp", "py", "c", "cpp", "html"])
        sect = "nunavut.lang." + lang
        fmaps, files = [], []
        for j in range(R.randint(0, 3)):
            m = rand_section(R, lang, allow_default=False)
            fmaps.append(m)
            p = d / ("%s%d_f%d_%d.yaml" % (R.choice("zmacqx"), R.randint(0, 9), i, j))
            doc = {sect: m}
            if R.random() < 0.2:  # an unrelated section must not disturb the target's
                other = R.choice([l for l in OPTION_DOMAIN if l != lang])
                doc["nunavut.lang." + other] = rand_section(R, other, False)
            p.write_text(yaml.safe_dump(doc))
            files.append(p)
        if len(files) >= 2 and R.random() < 0.35:
            # a file listed again later re-asserts its values over whatever came in between (A B A)
            k = R.randrange(len(files) - 1)
            files.append(files[k])
            fmaps.append(fmaps[k])
            ctx.count("cases_with_repeated_file")
        over = rand_section(R, lang, allow_default=True)
        snap_over = marked(over)
        exp = expected_section(lang, bases[lang], fmaps, over)
        ctx.count("evaluations")
        ctx.count("builder_cases")
        b = LanguageContextBuilder(include_experimental_languages=True).set_target_language(lang).add_config_files(*files)
        for k, v in over.items():
            b.set_target_language_configuration_override(k, v)
        try:
            lctx = b.create()
        except DeepUpdateContractBroken as e:
            ctx.refute(None, "contract on deep_update during create(): %s" % e, dict(lang=lang, files=fmaps, overrides=snap_over))
            continue
        except ValueError as e:
            # invalid combinations (e.g. ctor convention without allocator) are legitimately refused
            ctx.count("builder_refused")
            continue
        ctx.distinct(("b", lang, common.sha(repr((fmaps, snap_over)))))
        rep = context_reports(lctx)
        got = rep["section"]
        witness = dict(lang=lang, files=fmaps, overrides=snap_over)
        if got != exp:
            diff = {k: (got.get(k), exp.get(k)) for k in set(got) | set(exp) if got.get(k) != exp.get(k)}
            ctx.refute(None, "effective configuration differs from reference precedence", dict(witness, diff=diff))
            continue
        # reports through the Language API must agree with the section
        eo = dict(exp.get("options", {}))
        if lang == "py":
            eo["enable_serialization_asserts"] = True
        if rep["options"] != eo:
            diff = {k: (rep["options"].get(k), eo.get(k)) for k in set(rep["options"]) | set(eo) if rep["options"].get(k) != eo.get(k)}
            ctx.refute(None, "Language.get_options() differs from reference precedence", dict(witness, diff=diff))
            continue
        if rep["extension"] != exp.get("extension"):
            ctx.refute(None, "Language.extension differs from reference precedence", dict(witness, got=rep["extension"], expected=exp.get("extension")))
            continue
        # using the context (identifiers filtered for the target and for every other supported language) changes neither what it
        # reports nor the documents it was built from
        try:
            for probe in ("payloadq", "if", "x y"):
                lctx.filter_id_for_target(probe, "any")
            for other in lctx.get_supported_languages().values():
                try:
                    other.filter_id(other, "payloadq") if False else None
                    getattr(other, "get_token_encoder", lambda: None)()
                except Exception:
                    pass
            import nunavut.lang.py as _lpy
            import nunavut.lang.c as _lc
            for mod, lname in ((_lpy, "py"), (_lc, "c")):
                try:
                    mod.filter_id(lctx.get_language(lname), "payloadq")
                except Exception:
                    pass
        except Exception as e:
            ctx.count("context_use_raised[%s]" % type(e).__name__)
        ctx.count("contexts_used_then_reread")
        rep2 = context_reports(lctx)
        if rep2 != rep:
            diff = {k: (rep.get(k), rep2.get(k)) for k in rep if rep.get(k) != rep2.get(k)}
            ctx.refute(None, "what a context reports changed by using it (filtering identifiers)", dict(witness, diff=str(diff)[:600]))
            continue
        if marked(over) != snap_over:
            ctx.refute(None, "override document passed to the builder was modified", dict(witness, now=marked(over)))
            continue
        ctx.count("builder_agree")
    ctx.sample({"lang": lang, "files": fmaps, "overrides": snap_over, "effective_options": exp.get("options")})


def part_c(ctx, nhist):
    """Histories of builders and contexts in one process; reports of all earlier contexts are re-read after each step."""
    from nunavut.lang import LanguageContextBuilder
    R = random.Random("c13c/%s" % ctx.seed)
    d = pathlib.Path(ctx.sub("yamlc"))
    for h in range(nhist):
        live = []   # (context, snapshot, builder id, description)
        builders = []
        trace = []
        for step in range(R.randint(2, 6)):
            reuse = bool(builders) and R.random() < 0.35
            if reuse:
                bi = R.randrange(len(builders))
                b, lang = builders[bi]
            else:
                lang = R.choice(["c", "cpp", "py"])
                b = LanguageContextBuilder(include_experimental_languages=True).set_target_language(lang)
                if R.random() < 0.5:
                    p = d / ("h%d_%d.yaml" % (h, step))
                    p.write_text(yaml.safe_dump({"nunavut.lang." + lang: rand_section(R, lang, False)}))
                    b.add_config_files(p)
                builders.append((b, lang))
                bi = len(builders) - 1
            over = rand_section(R, lang, allow_default=True, p=0.6)
            for k, v in over.items():
                b.set_target_language_configuration_override(k, v)
            trace.append(dict(step=step, builder=bi, lang=lang, reused_builder=bool(reuse), overrides=marked(over)))
            try:
                lctx = b.create()
            except ValueError:
                ctx.count("history_refused")
                continue
            ctx.count("evaluations")
            ctx.count("history_steps")
            for (old, snap, obi, ostep) in live:
                now = context_reports(old)
                ctx.count("earlier_context_rereads")
                if now != snap:
                    diff = {k: (snap.get(k), now.get(k)) for k in snap if snap.get(k) != now.get(k)}
                    mech = "same-builder-second-create" if obi == bi else None
                    ctx.refute(mech, "context created at step %d reports different values after step %d" % (ostep, step),
                               dict(trace=trace, diff=diff))
            live = [(o, context_reports(o), obi, ostep) for (o, snap, obi, ostep) in live]
            live.append((lctx, context_reports(lctx), bi, step))
        ctx.distinct(("c", common.sha(repr(trace))))
    ctx.sample({"history": trace})


def part_c2(ctx):
    """One builder, create() called again after a configuration file was added: the explicit values given to the builder before still
    beat the file, the file still beats the built-in defaults (for the context created last; the earlier one is the known finding's matter)."""
    from nunavut.lang import LanguageContextBuilder
    d = pathlib.Path(ctx.sub("yamlc2"))
    for lang in ("c", "cpp", "py"):
        for k, (okey, oval, fval) in enumerate((("extension", ".xq1", ".fq2"), ("options", {"target_endianness": "big"}, {"target_endianness": "little"}))):
            b = LanguageContextBuilder(include_experimental_languages=True).set_target_language(lang)
            b.set_target_language_configuration_override(okey, oval)
            first = b.create()
            p = d / ("later_%s_%d.yaml" % (lang, k))
            p.write_text(yaml.safe_dump({"nunavut.lang." + lang: {okey: fval, "namespace_file_stem": "stemq%d" % k}}))
            b.add_config_files(p)
            try:
                second = b.create()
            except Exception as e:
                ctx.count("second_create_refused[%s]" % type(e).__name__)
                continue
            ctx.count("evaluations")
            ctx.count("second_create_after_file_cases")
            tl = second.get_target_language()
            got = tl.extension if okey == "extension" else tl.get_option("target_endianness")
            want = oval if okey == "extension" else oval["target_endianness"]
            if got != want:
                ctx.refute(None, "create() called again after a configuration file was added: the file's %s=%r displaced the explicit value %r given to the builder" % (okey, got, want),
                           dict(lang=lang, key=okey, explicit=oval, file=fval))
            elif tl.namespace_output_stem != "stemq%d" % k:
                ctx.refute(None, "create() called again after a configuration file was added: the file's namespace_file_stem is not in effect (%r)" % tl.namespace_output_stem,
                           dict(lang=lang, key=okey))
            else:
                ctx.count("second_create_after_file_agree")
            del first


def part_d(ctx, nruns):
    """The real CLI: --configuration files + flags, effective configuration read back with --list-configuration."""
    R = random.Random("c13d/%s" % ctx.seed)
    d = pathlib.Path(ctx.sub("cli"))
    D = DV()
    bases = {l: base_section(l) for l in OPTION_DOMAIN}
    jobs = []
    for i in range(nruns):
        lang = R.choice(["c", "cpp", "py"])
        sect = "nunavut.lang." + lang
        fmaps, args, cfg_files = [], [], []
        for j in range(R.randint(0, 3)):
            m = rand_section(R, lang, allow_default=False)
            fmaps.append(m)
            p = d / ("%s%d_r%d_%d.yaml" % (R.choice("zmacqx"), R.randint(0, 9), i, j))   # order given != sorted order
            p.write_text(yaml.safe_dump({sect: m}))
            cfg_files.append(str(p))
        if len(cfg_files) >= 2 and R.random() < 0.35:
            k = R.randrange(len(cfg_files) - 1)
            cfg_files.append(cfg_files[k])
            fmaps.append(fmaps[k])
            ctx.count("cases_with_repeated_file")
        if cfg_files:   # nargs="*": all files follow ONE --configuration flag (a repeated flag replaces, argparse semantics)
            args += ["--configuration"] + cfg_files
        # flags: store_true flags absent are *defaults* and must not displace file values
        lo = {}
        for flag, key in (("--omit-float-serialization-support", "omit_float_serialization_support"),
                          ("--enable-serialization-asserts", "enable_serialization_asserts"),
                          ("--enable-override-variable-array-capacity", "enable_override_variable_array_capacity")):
            if R.random() < 0.35:
                args.append(flag)
                lo[key] = True
            else:
                lo[key] = D(False)
        if R.random() < 0.4:
            v = R.choice(["any", "big", "little"])
            args += ["--target-endianness", v]
            lo["target_endianness"] = v
        if R.random() < 0.4:
            v = R.choice(CPP_STDS if lang == "cpp" else ["c11"]) if lang != "py" else None
            if v:
                args += ["--language-standard", v]
                lo["std"] = v
        over = {"options": lo}
        if R.random() < 0.3:
            v = R.choice([".h", ".hh", ".xyz"])
            args += ["--output-extension", v]
            over["extension"] = v
        if R.random() < 0.2:
            v = R.choice(["_", "nsx"])
            args += ["--namespace-output-stem", v]
            over["namespace_file_stem"] = v
        exp = expected_section(lang, bases[lang], fmaps, over)
        jobs.append((i, lang, args, fmaps, marked(over), exp))

    def runjob(job):
        i, lang, args, fmaps, over, exp = job
        cmd = [common.PY, "-m", "nunavut", "--list-configuration", "--target-language", lang, "--experimental-languages"] + args
        r = common.run(cmd, env=common.child_env(), cwd=str(d), timeout=300)
        return r.returncode, r.stdout, r.stderr[-2000:]
    import concurrent.futures
    with concurrent.futures.ThreadPoolExecutor(common.NCPU) as ex:
        results = list(ex.map(runjob, jobs))
    for (i, lang, args, fmaps, over, exp), (rc, out, err) in zip(jobs, results):
        ctx.count("evaluations")
        ctx.count("cli_runs")
        witness = dict(lang=lang, args=[a if not a.startswith(str(d)) else os.path.basename(a) for a in args], files=fmaps)
        if rc != 0:
            if "ValueError" in err or "error:" in err:
                ctx.count("cli_refused")
                continue
            ctx.refute(None, "nnvg --list-configuration failed rc=%s" % rc, dict(witness, stderr=err))
            continue
        try:
            doc = yaml.load(out, Loader=_loader())
        except Exception as e:
            ctx.refute(None, "--list-configuration output is not parseable YAML: %s" % e, dict(witness, stdout=out[:2000]))
            continue
        got = unwrap(doc.get("nunavut.lang." + lang))
        if doc.get("target_language") != lang:
            ctx.refute(None, "--list-configuration reports wrong target language", dict(witness, got=doc.get("target_language")))
        if got != exp:
            diff = {k: (got.get(k), exp.get(k)) for k in set(got) | set(exp) if got.get(k) != exp.get(k)}
            ctx.refute(None, "CLI effective configuration differs from reference precedence", dict(witness, diff=diff))
            continue
        ctx.count("cli_agree")
        ctx.distinct(("d", lang, tuple(witness["args"]), common.sha(repr(fmaps))))
    ctx.sample({"cli": witness, "effective_options": exp.get("options")})


def _loader():
    """--list-configuration dumps DefaultValue objects with a python tag; read them back as their value."""
    class L(yaml.SafeLoader):
        pass

    def dv(loader, suffix, node):
        if isinstance(node, yaml.MappingNode):
            m = loader.construct_mapping(node, deep=True)
            return m.get("_value", m)
        if isinstance(node, yaml.SequenceNode):
            return loader.construct_sequence(node, deep=True)
        return loader.construct_scalar(node)
    L.add_multi_constructor("tag:yaml.org,2002:python/", dv)
    return L


def run(ctx):
    install_contract()
    ctx.rule = ("case = (built-in config, 0..3 YAML files in order, explicit overrides with DefaultValue marks) or a history of merges / "
                "builders; distinct = distinct (sources, overrides) documents or histories by content hash; non-trivial = at least one source")
    part_a(ctx, ctx.pick(1500, 40000))
    part_b(ctx, ctx.pick(600, 6000))
    part_c(ctx, ctx.pick(150, 1500))
    part_c2(ctx)
    part_d(ctx, ctx.pick(96, 800))
    ctx.merge_counts(CONTRACT_EVALS)
    ctx.require("deep_update.post", 1000)
    ctx.require("builder_agree", 100)
    ctx.require("earlier_context_rereads", 50)
    ctx.require("cli_agree", 10)
    ctx.assumptions += ["lists are replaced, not merged (documented)", "Python target forces enable_serialization_asserts (documented)",
                        "C++ std shorthand groups overwrite the group's keys as a unit after merging (documented)"]
