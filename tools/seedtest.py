#!/usr/bin/env python3
"""tools/seedtest.py [C01 | C01-2 ...] [--tier=quick] [--checks=C01,C02] [--seed=0] [--write-meta] [--jobs=N]

Runs the check(s) of a property against a deliberately broken variant of the repository (seeded/<id>/patch.diff).

Default: each variant gets its own scratch worktree of /repo's HEAD under $TMPDIR (removed afterwards) and the check is pointed at
it with VERIF_REPO, so /repo stays untouched and several variants can be tried at once (--jobs=N).  With --in-repo the patch
is applied to /repo itself (git -C /repo apply), the check is run, and /repo is restored straight afterwards
(git -C /repo checkout -- .); nothing else may use /repo meanwhile.  With --write-meta the outcome is recorded in seeded/<id>/meta.json."""
import concurrent.futures, glob, json, os, re, subprocess, sys, tempfile, time, shutil
HERE = os.path.dirname(os.path.dirname(os.path.abspath(__file__)))
args = [a for a in sys.argv[1:] if not a.startswith('--')]
opts = dict((a[2:].split('=', 1) + ['1'])[:2] for a in sys.argv[1:] if a.startswith('--'))
tier = opts.get('tier', 'quick')
jobs = int(opts.get('jobs', '1'))
inrepo = 'in-repo' in opts
assert not (inrepo and jobs > 1), '--in-repo applies the patch to /repo itself: one at a time'

alld = sorted(os.path.basename(p) for p in glob.glob(os.path.join(HERE, 'seeded', 'C??-*')))
ids = [d for d in alld if not args or d in args or d.split('-')[0] in args]
assert subprocess.run(['git', '-C', '/repo', 'status', '--porcelain', '--untracked-files=no'], capture_output=True, text=True).stdout.strip() == '', '/repo not clean'


def needs_of(notes):
    out, on = [], False
    for l in notes.splitlines():
        if re.match(r"\s*[-*]?\s*\**\s*(Need|What it needs|Required to manifest|To manifest)", l, re.I):
            on = True
            out.append(re.sub(r"^\s*[-*]\s*", "", l))
        elif on and (re.match(r"\s*[-*#]\s+", l) or not l.strip()):
            break
        elif on:
            out.append(l.strip())
    return " ".join(out)


def one(sid):
    d = os.path.join(HERE, 'seeded', sid)
    pid = sid.split('-')[0]
    checks = opts.get('checks', pid).split(',')
    patch = os.path.join(d, 'patch.diff')
    notes = open(os.path.join(d, 'notes.md'), encoding='utf-8').read() if os.path.exists(os.path.join(d, 'notes.md')) else ''
    meta = {"id": sid, "property": pid, "title": (notes.splitlines() or [''])[0].lstrip('# ').strip(),
            "touches": sorted(set(re.findall(r"^\+\+\+ b/(\S+)", open(patch).read(), re.M))),
            "needs_to_manifest": needs_of(notes), "demonstration": "demo.py (exit 0 on the unchanged tree, non-zero with the change; see notes.md)",
            "existing_tests_with_change": "the 415 baseline tests still pass (run by the sub-agent that produced the change, in its own scratch worktree)",
            "ran": []}
    lines = []
    if not inrepo:
        repo = tempfile.mkdtemp(prefix="nvseedwt_%s_" % sid)
        os.rmdir(repo)
        subprocess.run(['git', '-C', '/repo', 'worktree', 'add', '--detach', '-q', repo, 'HEAD'], check=True, capture_output=True)
        where = "a scratch worktree of /repo's HEAD"
    else:
        repo, where = '/repo', '/repo'
    try:
        r = subprocess.run(['git', '-C', repo, 'apply', patch], capture_output=True, text=True)
        if r.returncode:
            lines.append('%s PATCH DOES NOT APPLY %s' % (sid, r.stderr[:300]))
            meta["ran"].append({"command": "git apply seeded/%s/patch.diff" % sid, "result": "does not apply to the current tree: " + r.stderr.strip()[:300]})
        else:
            for c in checks:
                t = time.time()
                evd = tempfile.mkdtemp(prefix="nvseed_ev_")
                r = subprocess.run([os.path.join(HERE, 'check'), c, '--tier', tier], capture_output=True, text=True, cwd=HERE,
                                   env=dict(os.environ, VERIF_SEED=opts.get('seed', '0'), VERIF_EVIDENCE_DIR=evd, VERIF_REPO=repo))
                shutil.rmtree(evd, ignore_errors=True)
                viol = [l for l in r.stdout.splitlines() if l.startswith('VIOLATION')]
                what = [l.strip()[6:] for l in r.stdout.splitlines() if l.startswith('  what:')]
                lines.append('%s check=%s rc=%d violations=%d %.0fs %s' % (sid, c, r.returncode, len(viol), time.time() - t, (what[0][:160] if what else '')))
                if r.returncode == 2:
                    lines.append('    %s' % [l for l in r.stdout.splitlines() if l.startswith('INCONCLUSIVE')][:2])
                meta["ran"].append({"command": "./check %s --tier %s (VERIF_SEED=%s) on %s with the patch applied" % (c, tier, opts.get('seed', '0'), where),
                                    "exit": r.returncode, "violation_lines": len(viol), "first_reports": what[:3], "wall_s": round(time.time() - t)})
    finally:
        if not inrepo:
            subprocess.run(['git', '-C', '/repo', 'worktree', 'remove', '--force', repo], capture_output=True)
            shutil.rmtree(repo, ignore_errors=True)
        else:
            subprocess.run(['git', '-C', '/repo', 'checkout', '--', '.'], check=True)
    meta["caught"] = any(x.get("exit") == 1 for x in meta["ran"])
    if 'write-meta' in opts:
        old = {}
        mp = os.path.join(d, 'meta.json')
        if os.path.exists(mp):
            old = json.load(open(mp))
        for k in ("history", "ported", "round", "obsolete", "confirmed"):
            if k in old:
                meta[k] = old[k]
        with open(mp, 'w', encoding='utf-8') as f:
            json.dump(meta, f, indent=1, ensure_ascii=False)
            f.write("\n")
    return lines


with concurrent.futures.ThreadPoolExecutor(jobs) as ex:
    for lines in ex.map(one, ids):
        for l in lines:
            print(l, flush=True)
if 'keep-replay' not in opts:
    subprocess.run(['rm', '-rf', os.path.join(HERE, 'replay')])
subprocess.run(['git', '-C', '/repo', 'worktree', 'prune'])
