"""./check <ID> [--tier quick|thorough] [--replay PATH]"""
import argparse
import importlib
import json
import os
import sys
import traceback

sys.path.insert(0, os.path.dirname(os.path.dirname(os.path.abspath(__file__))))
from vlib import common  # noqa: E402


def main():
    ap = argparse.ArgumentParser()
    ap.add_argument("pid")
    ap.add_argument("--tier", default=os.environ.get("VERIF_TIER", "quick"), choices=["quick", "thorough"])
    ap.add_argument("--replay")
    a = ap.parse_args()
    pid = a.pid.upper()
    seed = int(os.environ.get("VERIF_SEED", "0") or 0)
    replay = None
    tier = a.tier
    if a.replay:
        replay = json.load(open(a.replay))
        seed = int(replay.get("seed", seed))
        tier = replay.get("tier", tier)
    mod = importlib.import_module("vlib.props.%s" % pid.lower())
    ctx = common.Ctx(pid, tier, seed, level=getattr(mod, "LEVEL", "exploration"), replay=replay)
    try:
        mod.run(ctx)
    except Exception:  # a crash of the *checker* is never a verdict about the repository
        traceback.print_exc()
        ctx.inconclusive_because("checker error: %s" % traceback.format_exc().strip().splitlines()[-1])
    rc = ctx.finish()
    sys.stdout.flush()
    ctx.cleanup()
    os._exit(rc)


if __name__ == "__main__":
    main()
