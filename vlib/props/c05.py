"""C05 - exported size bounds and type metadata are correct for every type.

Probe programs compiled from the real generated C and C++ headers print every exported constant (integers through a cast AND as
the truth of `(X) < 0`, floats as raw bit patterns); a Python child reads the class attributes.  The PyDSDL model is the oracle.
Serialization of maximal and random values into exact-size heap buffers (ASan) checks size <= SERIALIZATION_BUFFER_SIZE <= EXTENT,
and every undersized buffer must be refused with the buffer-too-small code.
"""
import fractions
import math
import os
import random
import re
import shutil
import struct

import pydsdl

from vlib import build, codec, codecwork as W, common, refmodel as M

LEVEL = "exploration"
MANIFEST = {
    "category": "exploration",
    "technique": "probe programs over the real generated headers/classes compared with the PyDSDL model + sanitized serialization into exact-size and undersized heap buffers",
    "text": "For the coverage corpus and random namespace sets (constants of every primitive kind incl. extreme magnitudes, fixed port-IDs "
            "incl. 0, services, explicit @extent, empty types) generated C, C++ (c++14 and one newer flavour) and Python code exports "
            "are read back by compiled probes / attribute reads and compared with the DSDL model: extent, buffer size, names and "
            "versions, port-IDs, array capacities, union option counts, every constant (integers exact and with the right sign as an "
            "expression; floats within one ULP of the correctly rounded rational). Maximal values are serialized into buffers of "
            "every size 0..max+1: exactly the sizes >= max succeed, the reported size never exceeds the advertised bound, also under the option-specific fast paths (target_endianness little/big, asserts off). A regeneration twin (same interpreter generates a namespace and then an edited version with equal names, versions and sizes) must carry the second definition's constants, port-IDs and field names everywhere, including the model embedded in Python modules.",
    "note": "Representation of constants (macro vs constexpr, suffixes) is not judged; Python float constants are compared as doubles. Types whose "
            "probe does not compile are skipped and counted (a C06 matter); >10% skipped makes the run inconclusive.",
}
MANIFEST["text"] += ' A second regeneration history runs over the output of an older version of a namespace in which only nested definitions were edited (dated after that output): every type that nests them must carry the new sizes.'
MANIFEST["text"] += ' Constants include single- and half-precision values whose exact rational exceeds the range of a float; the C storage-override option is among the code bases.'


def const_expect(c):
    """(kind, exact value) of a DSDL constant."""
    v = c.value
    dt = c.data_type
    if isinstance(dt, pydsdl.BooleanType):
        return "bool", bool(v.native_value)
    nv = v.native_value
    if isinstance(dt, pydsdl.FloatType):
        return "float", fractions.Fraction(nv)
    return "int", int(nv)


def float_bits_ok(fr, bits_hex, width):
    """The exported bit pattern is within one ULP of the exact rational rounded to the declared type."""
    got = int(bits_hex, 16)
    fmt = {32: ("<f", "<I"), 64: ("<d", "<Q")}[width]
    try:
        exact = float(fr)
    except OverflowError:
        exact = math.inf if fr > 0 else -math.inf
    try:
        want = struct.unpack(fmt[1], struct.pack(fmt[0], exact))[0]
    except OverflowError:
        want = struct.unpack(fmt[1], struct.pack(fmt[0], math.copysign(math.inf, exact)))[0]
    if got == want:
        return True
    sign = 1 << (width - 1)
    if (got & sign) != (want & sign):
        return (got & ~sign) == 0 and (want & ~sign) <= 1 or (want & ~sign) == 0 and (got & ~sign) <= 1
    return abs(got - want) <= 1


def classify(lang, t, cname, line, why):
    return None


def check_consts_c(ctx, b, witness, is_cpp):
    out, rc, err = b.consts()
    if rc != 0:
        ctx.refute(None, "%s: constant probe terminated abnormally" % b.name, dict(witness, base=b.name, stderr=err))
        return
    for ti, t in enumerate(b.msgs):
        lines = {tuple(l.split(" ", 2)[:2]) if l.startswith(("CONST", "CAP")) else (l.split(" ", 1)[0],): l for l in out.get(ti, [])}
        it = M.inner(t)
        w = dict(witness, base=b.name, type=str(t))

        def expect(key, want, desc):
            ctx.count("evaluations")
            ctx.count("constants_checked")
            l = lines.get(key)
            if l is None:
                ctx.refute(None, "%s: %s of %s is not exported" % (b.name, desc, t), w)
                return
            got = l.split(" ", len(key))[-1]
            if str(got) != str(want):
                ctx.refute(None, "%s: %s of %s is %s, the DSDL definition says %s" % (b.name, desc, t, got, want), dict(w, line=l))
            else:
                ctx.count("constants_ok")
                ctx.distinct((b.lang, desc.split()[0], W.features(t)[:2], str(want)[:20]))
        expect(("EXTENT",), t.extent // 8, "extent")
        expect(("BUFSIZE",), W.bufbound(t), "serialization buffer size")
        if not is_cpp:
            expect(("FULLNAME",), t.full_name, "full name")
            expect(("FULLNAMEVER",), "%s.%d.%d" % (t.full_name, t.version.major, t.version.minor), "full name and version")
        owner = getattr(b.h, "port_owner", {}).get(codec.key(t), t) if is_cpp else t     # C++: request/response carry their service's port-ID
        if is_cpp or not t.has_parent_service:
            expect(("HASPORT",), int(bool(owner.has_fixed_port_id)), "has-fixed-port-ID flag")
            if owner.has_fixed_port_id:
                expect(("PORT",), owner.fixed_port_id, "fixed port-ID")
        if isinstance(it, pydsdl.UnionType):
            expect(("OPTIONS",), len(it.fields), "union option count")
        if not is_cpp:
            for f in it.fields_except_padding:
                if isinstance(f.data_type, pydsdl.ArrayType):
                    expect(("CAP", f.name), f.data_type.capacity, "capacity of " + f.name)
        for c in it.constants:
            kind, want = const_expect(c)
            ctx.count("evaluations")
            ctx.count("constants_checked")
            l = lines.get(("CONST", c.name))
            if l is None:
                ctx.refute(None, "%s: constant %s of %s is not exported" % (b.name, c.name, t), w)
                continue
            parts = l.split()
            why = None
            if kind == "bool":
                why = None if (parts[2] == "bool" and int(parts[3]) == int(want)) else "value"
            elif kind == "int":
                if parts[2] not in ("int", "uint") or int(parts[3]) != want:
                    why = "value %s != %s" % (parts[3], want)
                elif int(parts[4]) != int(want < 0):
                    why = "as an expression the literal is %s although the constant is %s" % ("negative" if int(parts[4]) else "not negative", want)
            else:
                width = 64 if parts[2] == "f64" else 32
                if not float_bits_ok(want, parts[3], width):
                    why = "bits %s are not within one ULP of %s" % (parts[3], float(want) if abs(want) < 10 ** 300 else want)
            if why:
                ctx.refute(classify(b.lang, t, c.name, l, why), "%s: constant %s.%s: %s" % (b.name, t, c.name, why), dict(w, line=l, dsdl=str(c)))
            else:
                ctx.count("constants_ok")
                ctx.distinct((b.lang, "const", type(c.data_type).__name__, c.data_type.bit_length, str(want)[:24]))


def check_sizes_py(ctx, b, R, witness):
    """Python allocates its own buffer from the advertised bounds: every value, in particular the largest one, must serialize,
    into no more bytes than advertised."""
    vectors, meta = [], []
    for ti, t in enumerate(b.msgs):
        vals = [("max", M.max_value(t)), ("min", M.min_value(t, 0)), ("min", M.min_value(t, 1))] + [("rand", M.gen_value(R, t, in_range=True, maxlen=50)) for _ in range(4)]
        for kind, v in vals:
            vectors.append(dict(op="ser", ti=ti, value=v))
            meta.append((kind, t))
    results, _, inc = b.run(vectors)
    for (kind, t), res in zip(meta, results):
        ctx.count("evaluations")
        ctx.count("size_executions")
        bound = W.bufbound(t)
        w = dict(witness, base=b.name, type=str(t), kind=kind, advertised=bound)
        if res["st"] == "exc" and res.get("env_numpy2"):
            ctx.count("env_numpy2_excluded")
        elif res["st"] != "ok":
            ctx.refute(None, "py: serialization of a %s value of %s failed (%s %s) although the object is valid" % (kind, t, res.get("exc"), str(res.get("msg"))[:100]), w)
        elif res["size"] > bound:
            ctx.refute(None, "py: serialized size %d of %s exceeds the advertised bound %d" % (res["size"], t, bound), w)
        else:
            ctx.count("size_ok")
            ctx.count("py_size_ok")


def check_consts_py(ctx, b, witness):
    rs = b.consts()
    for ti, t in enumerate(b.msgs):
        r = rs[ti]
        w = dict(witness, base=b.name, type=str(t))
        if r.get("st") != "ok":
            ctx.refute(None, "py: metadata of %s cannot be read: %s" % (t, str(r)[:200]), w)
            continue
        info = r["info"]

        def expect(got, want, desc):
            ctx.count("evaluations")
            ctx.count("constants_checked")
            if got != want:
                ctx.refute(None, "py: %s of %s is %r, the DSDL definition says %r" % (desc, t, got, want), w)
            else:
                ctx.count("constants_ok")
        expect(info["EXTENT"], t.extent // 8, "_EXTENT_BYTES_")
        expect(info["get_extent_bytes"], t.extent // 8, "get_extent_bytes()")
        port = t.fixed_port_id if t.has_fixed_port_id else (None)
        if t.has_parent_service:
            pass   # the port-ID of a service is carried by the service class and, as generated, also by its halves; compare below only for messages
        else:
            expect(info["get_fixed_port_id"], port, "get_fixed_port_id()")
            expect(info["PORT"], port, "_FIXED_PORT_ID_")
        if "model_consts" in info:
            expect(info["model_consts"], {c.name: str(c.value.native_value) for c in M.inner(t).constants}, "constants of the embedded model (_MODEL_)")
            expect(info["model_fields"], [f.name for f in M.inner(t).fields_except_padding], "field names of the embedded model (_MODEL_)")
            if not t.has_parent_service:
                expect(info["model_port"], port, "fixed port-ID of the embedded model (_MODEL_)")
        for c in M.inner(t).constants:
            kind, want = const_expect(c)
            got = info["consts"].get(c.name)
            ctx.count("evaluations")
            ctx.count("constants_checked")
            ok = False
            if got and kind == "bool":
                ok = got[0] == "bool" and got[1] == want
            elif got and kind == "int":
                ok = got[0] == "int" and got[1] == want
            elif got and kind == "float":
                ok = (got[0] == "f64" and float_bits_ok(want, got[1], 64)) or (got[0] == "int" and fractions.Fraction(got[1]) == want)
            if not ok:
                ctx.refute(None, "py: constant %s.%s is %r, the DSDL definition says %s" % (t, c.name, got, want), dict(w, dsdl=str(c)))
            else:
                ctx.count("constants_ok")


def check_sizes(ctx, b, R, witness, toosmall):
    vectors, meta = [], []
    for ti, t in enumerate(b.msgs):
        bound = W.bufbound(t)
        vmax = M.max_value(t)
        sizes = sorted(set(list(range(0, min(bound, 24) + 2)) + [bound - 1, bound, bound + 1, bound + 5] + [R.randint(0, bound + 1) for _ in range(4)]))
        for s in sizes:
            if s < 0:
                continue
            vectors.append(dict(op="ser", ti=ti, value=vmax, bufsize=s, pre=1))
            meta.append(("max", t, s))
        for _ in range(6):
            vectors.append(dict(op="ser", ti=ti, value=M.gen_value(R, t, in_range=True, maxlen=50), bufsize=bound + R.choice([0, 3, 64]), pre=2))
            meta.append(("rand", t, None))
    results, exit_reports, inc = b.run(vectors)
    if inc:
        ctx.inconclusive_because("%s: %s" % (b.name, inc))
    for (kind, t, s), vec, res in zip(meta, vectors, results):
        ctx.count("evaluations")
        ctx.count("size_executions")
        bound = W.bufbound(t)
        w = dict(witness, base=b.name, type=str(t), bufsize=vec["bufsize"], advertised=bound)
        if res["st"] == "crash":
            ctx.refute(None, "%s: %s serializing %s into %d bytes" % (b.name, res["kind"], t, vec["bufsize"]), dict(w, report=res["text"][-1200:]))
        elif res["st"] == "ok":
            if res["size"] > bound:
                ctx.refute(None, "%s: serialized size %d of %s exceeds the advertised buffer size %d" % (b.name, res["size"], t, bound), w)
            elif kind == "max" and vec["bufsize"] < bound:
                ctx.refute(None, "%s: buffer of %d bytes accepted for %s although the advertised bound is %d" % (b.name, vec["bufsize"], t, bound), w)
            elif kind == "max" and res["size"] != len(M.encode(t, vec["value"])):
                ctx.refute(None, "%s: maximal value of %s serialized to %d bytes, specification says %d" % (b.name, t, res["size"], len(M.encode(t, vec["value"]))), w)
            else:
                ctx.count("size_ok")
        elif res["st"] == "err":
            if vec["bufsize"] >= bound:
                ctx.refute(None, "%s: buffer of the advertised size %d refused for %s (rc=%d)" % (b.name, vec["bufsize"], t, res["rc"]), w)
            elif res["rc"] != toosmall:
                ctx.refute(None, "%s: undersized buffer refused with rc=%d instead of the buffer-too-small code %d" % (b.name, res["rc"], toosmall), w)
            else:
                ctx.count("undersized_refused")


def run_set(ctx, item, sizes=True):
    idx, dsdl_dir, roots, parsed = item
    R = random.Random("c05/%s/%s" % (ctx.seed, idx))
    wd = ctx.sub("work_%s" % idx)
    i = idx if isinstance(idx, int) else 0
    specs = [dict(lang="c", name="c_any", flags=[]), dict(lang="cpp", std="c++14", name="cpp14"),
             # the size bounds are the same under every language option: the option-specific fast paths must respect them too
             [dict(lang="c", name="c_little", flags=["--target-endianness", "little"]),
              dict(lang="c", name="c_big_noassert", flags=["--target-endianness", "big"], asserts=False),
              dict(lang="c", name="c_ovr_little_noassert", flags=["--enable-override-variable-array-capacity", "--target-endianness", "little"], asserts=False)][i % 3],
             dict(lang="cpp", std=["c++17", "c++17-pmr", "c++20"][(idx if isinstance(idx, int) else 0) % 3], name="cpp_newer"), dict(lang="py", name="py")]
    if idx == "corpus" or not ctx.quick:
        # the storage-override option of C (no override defined): sizes and refusals are those of the plain code
        specs.append(dict(lang="c", name="c_ovr", flags=["--enable-override-variable-array-capacity"]))
    if not ctx.quick:
        specs += [dict(lang="c", name="c_gcc", flags=[], kind="gcc"), dict(lang="cpp", std="c++14", name="cpp14_gcc", kind="gcc")]
    bases = W.build_bases(wd, dsdl_dir, roots, parsed, specs)
    witness = dict(set=idx, seed=ctx.seed)
    for b in bases:
        ctx.count("bases_attempted")
        if b.error:
            ctx.count("bases_failed[%s]" % b.name)
            ctx.extra.setdefault("base_failures", []).append(dict(set=idx, base=b.name, stage=b.error[0], detail=b.error[1][-500:]))
            # a probe line that does not compile means the constant it reads is not exported (or has another name)
            m = re.search(r'harness\.c(?:pp)?:\d+:\d+: error: ([^\n]*)\n[^\n]*printf\("(EXTENT|BUFSIZE|PORT|HASPORT|OPTIONS|CAP \w+|CONST \w+|FULLNAME\w*)', b.error[1])
            if b.error[0] == "harness-build" and m:
                ctx.refute(None, "%s: exported constant %s cannot be read from the generated code: %s" % (b.name, m.group(2), m.group(1)[:160]),
                           dict(witness, base=b.name, detail=b.error[1][-800:]))
            continue
        ctx.count("bases_built")
        if b.lang == "py":
            check_consts_py(ctx, b, witness)
            if sizes:
                check_sizes_py(ctx, b, R, witness)
        else:
            check_consts_c(ctx, b, witness, b.lang == "cpp")
            if sizes:
                check_sizes(ctx, b, R, witness, toosmall=-3)
    W.cleanup_bases(bases)
    shutil.rmtree(wd, ignore_errors=True)


def extra_types(dsdl_dir, root):
    """Shapes the random generator rarely makes: port-ID 0, a service with a fixed port-ID, constants-only type, extreme constants."""
    d = os.path.join(dsdl_dir, root)
    open(os.path.join(d, "0.PortZeroq.1.0.dsdl"), "w").write("uint8 v\n@sealed\n")
    open(os.path.join(d, "77.SvcPortq.1.0.dsdl"), "w").write("uint8 a\n@sealed\n---\nuint16 b\n@extent 16 * 8\n")
    open(os.path.join(d, "OnlyConstsq.1.0.dsdl"), "w").write(
        "uint16 SCALE = 1000\nint8 NEG = -128\nint64 BIG = 9223372036854775807\nint64 NEARMIN = -9223372036854775807\nuint64 UMAX = 18446744073709551615\n"
        "float32 PI = 3.14159265358979\nfloat64 THIRD = 1/3\nfloat16 HALFMAX = 65504.0\nfloat32 TINY = 1e-30\nfloat64 HUGE = 1e300\nbool YES = true\n"
        "int64 MIN64 = -9223372036854775808\nfloat64 SUB = 1e-320\nfloat64 DMAX = 1.7976931348623157e308\nfloat32 FMAX = 3.4028234e38\nint32 MIN32 = -2147483648\n"
        "uint8 CHR = 'a'\nint33 M33 = -4294967296\nfloat64 E = 2.718281828459045\nfloat32 NEGF = -0.5\n"
        # single- and half-precision constants whose exact rational has a numerator or denominator beyond the range of a float / a half
        "float32 PLANCK = 6.62607015e-34\nfloat32 FLTMIN = 1.17549435e-38\nfloat32 FDENORM = 1e-40\nfloat32 FBIG = 3.0e38\nfloat32 ELECTRON = 9.1093837e-31\n"
        "float16 HTINY = 6.0e-8\nfloat16 HSMALL = 6.1e-5\nfloat16 HNEG = -65504.0\nfloat32 NINE = 5.57172894e-8\nfloat64 DTINY = 4.9e-324\nfloat64 AVOGADRO = 6.02214076e23\n@sealed\n")


TWIN_A = {
    "hq/ConstsT.1.0.dsdl": "uint8 K = 7\nfloat32 F = 1.5\nbool B = true\nint16 N = -3\nuint8 v\nhq.InnerT.1.0 i\n@sealed\n",
    "hq/InnerT.1.0.dsdl": "uint8 L = 1\nuint8 a\n@extent 64\n",
    "hq/600.PortT.1.0.dsdl": "uint8 v\n@sealed\n",
    "hq/400.SvcT.1.0.dsdl": "uint8 Q = 1\nuint8 v\n@sealed\n---\nuint8 R = 2\nuint8 v\n@sealed\n",
    "hq/UnionT.1.0.dsdl": "@union\nuint8 U = 9\nuint8 a\nuint16 b\n@sealed\n",
}
# same names, versions and bit length sets; other constants, port-IDs and field names
TWIN_B = {
    "hq/ConstsT.1.0.dsdl": "uint8 K = 8\nfloat32 F = 2.5\nbool B = false\nint16 N = -4\nuint8 w\nhq.InnerT.1.0 j\n@sealed\n",
    "hq/InnerT.1.0.dsdl": "uint8 L = 2\nuint8 b\n@extent 64\n",
    "hq/601.PortT.1.0.dsdl": "uint8 w\n@sealed\n",
    "hq/401.SvcT.1.0.dsdl": "uint8 Q = 3\nuint8 w\n@sealed\n---\nuint8 R = 4\nuint8 w\n@sealed\n",
    "hq/UnionT.1.0.dsdl": "@union\nuint8 U = 10\nuint8 c\nuint16 d\n@sealed\n",
}


def regeneration_history(ctx):
    """The same interpreter generates a namespace and then an edited version of it (same type names, versions and sizes): the second
    output must carry the second definition's metadata everywhere."""
    from vlib import codec, dsdlgen
    d = ctx.sub("twin")
    for name, files in (("a", TWIN_A), ("b", TWIN_B)):
        for rel, text in files.items():
            os.makedirs(os.path.dirname(os.path.join(d, name, rel)), exist_ok=True)
            with open(os.path.join(d, name, rel), "w") as f:
                f.write(text)
    roots = ["hq"]
    codec.HISTORY = (os.path.join(d, "a"), roots)
    try:
        run_set(ctx, ("regen", os.path.join(d, "b"), roots, dsdlgen.read_all(os.path.join(d, "b"), roots)), sizes=False)
        ctx.count("regeneration_history_sets")
    finally:
        codec.HISTORY = None


REGEN_OLD = {
    "rq/Leafq.1.0.dsdl": "uint8 K = 1\nuint8 a\n@sealed\n",
    "rq/Midq.1.0.dsdl": "rq.Leafq.1.0 leaf\nuint8 t\n@extent 100 * 8\n",
    "rq/Holderq.1.0.dsdl": "uint8 h\nrq.Midq.1.0 mid\nrq.Leafq.1.0[2] leaves\nrq.Leafq.1.0[<=3] more\n@sealed\n",
    "rq/50.HSvcq.1.0.dsdl": "rq.Leafq.1.0 rq1\n@sealed\n---\nrq.Holderq.1.0 rs1\n@sealed\n",
    "rq/Aloneq.1.0.dsdl": "uint16 x\n@sealed\n",
}
# only the leaf (and the extent of the middle type) are edited: everything that nests them has new sizes although its own file is untouched
REGEN_NEW = dict(REGEN_OLD, **{
    "rq/Leafq.1.0.dsdl": "uint8 K = 2\nuint8 a\nuint32[<=11] grown\n@sealed\n",
    "rq/Midq.1.0.dsdl": "rq.Leafq.1.0 leaf\nuint8 t\n@extent 200 * 8\n",
})


def regeneration_over_earlier_output(ctx):
    """The output directory already holds what an earlier run made of an older version of the namespace; since then a nested definition
    was edited (its file is newer than that output, the files of the types that nest it are older).  What the second run leaves must carry
    the constants of the definitions as they are now."""
    import time
    from vlib import codec, dsdlgen
    d = ctx.sub("regen")
    past = time.time() - 5000
    for name, files in (("old", REGEN_OLD), ("new", REGEN_NEW)):
        for rel, text in files.items():
            os.makedirs(os.path.dirname(os.path.join(d, name, rel)), exist_ok=True)
            with open(os.path.join(d, name, rel), "w") as f:
                f.write(text)
            os.utime(os.path.join(d, name, rel), (past, past))

    def edited_now():
        for rel in REGEN_NEW:
            if REGEN_NEW[rel] != REGEN_OLD[rel]:
                os.utime(os.path.join(d, "new", rel), None)
    roots = ["rq"]
    codec.EARLIER = (os.path.join(d, "old"), roots, edited_now)
    try:
        run_set(ctx, ("regen_same_outdir", os.path.join(d, "new"), roots, dsdlgen.read_all(os.path.join(d, "new"), roots)))
        ctx.count("regeneration_over_earlier_output_sets")
    finally:
        codec.EARLIER = None


def run(ctx):
    ctx.rule = ("case = exported constant or (type, buffer size) serialization on a code base; distinct = distinct (language, constant kind, value) checks that agreed")
    ok, why = build.sanitizer_canary(ctx.sub("canary"))
    if not ok:
        ctx.inconclusive_because("sanitizer canary: " + why)
        return
    sets = W.make_sets(ctx, ctx.pick(2, 30), "c05", allow=("port_id",))
    for item in sets:
        idx, dsdl_dir, roots, parsed = item
        if idx != "corpus":
            extra_types(dsdl_dir, roots[0])
            from vlib import dsdlgen
            item = (idx, dsdl_dir, roots, dsdlgen.read_all(dsdl_dir, roots))
        run_set(ctx, item)
    regeneration_history(ctx)
    regeneration_over_earlier_output(ctx)
    ctx.sample({"type": "…OnlyConstsq.1.0", "constant": "float64 THIRD = 1/3", "probe": "printf of the raw bits of (double)(X)", "oracle": "Fraction(1,3) rounded to binary64, +-1 ULP"})
    ctx.require("constants_ok", 500)
    ctx.require("size_ok", 100)
    ctx.require("undersized_refused", 300)
    if ctx.counters["bases_attempted"] and ctx.counters["bases_built"] < 0.9 * ctx.counters["bases_attempted"]:
        ctx.inconclusive_because("more than 10%% of the code bases could not be built (%d of %d)" % (ctx.counters["bases_attempted"] - ctx.counters["bases_built"], ctx.counters["bases_attempted"]))
