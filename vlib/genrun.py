"""E3 - running the real generator: in-process through the library API, or the CLI as a subprocess."""
import os
import pathlib
import random
import shutil

from vlib import common


def lang_context(lang, options=None, overrides=None):
    from nunavut.lang import LanguageContextBuilder
    b = LanguageContextBuilder(include_experimental_languages=True).set_target_language(lang)
    if options:
        b.set_target_language_configuration_override("options", dict(options))
    for k, v in (overrides or {}).items():
        b.set_target_language_configuration_override(k, v)
    return b.create()


def gen_inprocess(types, root_dir, out, lang, order_seed=None, post_processors=None, templates_dir=None, options=None,
                  support=False, overrides=None, omit_serialization_support=False, lctx=None, pre_calls=(), gen_kwargs=None, fail_first=None):
    """Generate `types` with the real DSDLCodeGenerator; returns {relative path: bytes}.
    pre_calls: keyword dictionaries of earlier generate_all() calls made on the SAME generator objects before the final one
    (history of one generator: dry runs, other per-call options); the output directory is emptied before the final call."""
    import nunavut
    import nunavut.jinja
    ts = list(types)
    if order_seed is not None:
        random.Random(order_seed).shuffle(ts)
    lctx = lctx or lang_context(lang, options, overrides)
    ns = nunavut.build_namespace_tree(ts, root_dir, out, lctx)
    kw = {}
    if post_processors is not None:
        kw["post_processors"] = post_processors
    if templates_dir is not None:
        kw["templates_dir"] = pathlib.Path(templates_dir)
    kw.update(gen_kwargs or {})      # e.g. trim_blocks / lstrip_blocks / additional_filters
    if fail_first is not None:
        # history of ONE generator object: its first generate_all() is aborted by a file post-processor that raises on its
        # fail_first-th file (after that file was rendered); the caller catches the error and calls generate_all() again
        import nunavut._postprocessors as _pp

        class FailOnce(_pp.FilePostProcessor):
            calls = 0

            def __call__(self, generated):
                FailOnce.calls += 1
                if FailOnce.calls == fail_first:
                    raise RuntimeError("injected failure after %s was written" % generated.name)
                return generated
        kw["post_processors"] = list(kw.get("post_processors") or []) + [FailOnce()]
    g = nunavut.jinja.DSDLCodeGenerator(ns, **kw)
    if fail_first is not None:
        try:
            g.generate_all(omit_serialization_support=omit_serialization_support)
        except RuntimeError:
            pass
        import shutil
        shutil.rmtree(out, ignore_errors=True)
    s = nunavut.jinja.SupportGenerator(ns, **({"post_processors": post_processors} if post_processors is not None else {})) if support else None
    for pk in pre_calls:
        g.generate_all(**pk)
        if s is not None:
            s.generate_all(**pk)
    if pre_calls:
        import shutil
        shutil.rmtree(out, ignore_errors=True)
    g.generate_all(omit_serialization_support=omit_serialization_support)
    if s is not None:
        s.generate_all(omit_serialization_support=omit_serialization_support)
    return common.read_files(out), ns


def nnvg(args, cwd=None, env=None, timeout=600):
    """Run the real CLI (python -m nunavut) from /repo's working tree."""
    return common.run([common.PY, "-m", "nunavut"] + [str(a) for a in args], cwd=cwd, env=env or common.child_env(), timeout=timeout)


def nnvg_all_roots(dsdl_dir, roots, out, lang, extra=(), cwd=None, env=None):
    """One CLI invocation per root namespace (the others as lookup directories), all into one output tree."""
    results = []
    for root in roots:
        cmd = ["-l", lang, "-O", out, os.path.join(dsdl_dir, root), "--allow-unregulated-fixed-port-id", "--experimental-languages"] + list(extra)
        for x in roots:
            if x != root:
                cmd += ["-I", os.path.join(dsdl_dir, x)]
        results.append(nnvg(cmd, cwd=cwd, env=env))
    return results


def type_key(t):
    return (t.full_name, t.version.major, t.version.minor)
