// Stand-in for CETL's "cetl/variable_length_array.hpp": cetl::VariableLengthArray<T, Allocator> with the constructors that
// code generated with --language-standard cetl++14-17 uses: (allocator), (max_size, allocator), copy/move with allocator.
#ifndef VERIF_CETL_STUB_VARIABLE_LENGTH_ARRAY_HPP
#define VERIF_CETL_STUB_VARIABLE_LENGTH_ARRAY_HPP
#include <cstddef>
#include <utility>
#include <vector>
namespace cetl {
template <typename T, typename A>
class VariableLengthArray : public std::vector<T, A>
{
    using B = std::vector<T, A>;
public:
    using allocator_type = A;
    explicit VariableLengthArray(const A& a) : B(a), max_(static_cast<std::size_t>(-1)) {}
    VariableLengthArray(std::size_t max_size_max, const A& a) : B(a), max_(max_size_max) {}
    VariableLengthArray(const VariableLengthArray& o, const A& a) : B(o, a), max_(o.max_) {}
    VariableLengthArray(VariableLengthArray&& o, const A& a) : B(std::move(o), a), max_(o.max_) {}
    VariableLengthArray(const VariableLengthArray&) = default;
    VariableLengthArray(VariableLengthArray&&) = default;
    VariableLengthArray& operator=(const VariableLengthArray& o) { B::assign(o.begin(), o.end()); return *this; }
    VariableLengthArray& operator=(VariableLengthArray&& o) { B::assign(std::make_move_iterator(o.begin()), std::make_move_iterator(o.end())); o.clear(); return *this; }
    ~VariableLengthArray() = default;
    std::size_t max_size() const noexcept { return max_; }
private:
    std::size_t max_;
};
}  // namespace cetl
#endif
