"""C11 - types map one-to-one onto files in the output tree; the namespace model is a tree.

Monitors: (A) structural walker over the Namespace returned by the real build_namespace_tree (each type once, each prefix
namespace once incl. empty intermediate ones, parent/child links, total path lookup from every node, path shape, path
injectivity, type path under its namespace's folder) with an independent path builder; (B) real generations through the
CLI inside a sandbox directory with before/after snapshots (nothing outside the output directory, one file per type at the
predicted place, include/import targets of referenced types are the files their own namespace generation produces) for
several spellings of the output directory.
"""
import collections
import json
import os
import random
import re
import shutil

from vlib import common, dsdlgen, genrun

LEVEL = "exploration"
MANIFEST = {
    "category": "exploration",
    "technique": "structural invariant walker at the API boundary + independent path builder + sandbox snapshot monitor around real CLI generations",
    "text": "For random namespace sets (arbitrary depth, empty intermediate namespaces, several versions, names needing stropping, "
            "cross-root references; as parsed, shuffled, random subsets) the tree returned by the real build_namespace_tree is "
            "walked for all four languages and several output-directory spellings; every invariant of the statement is asserted on "
            "the live structure. Real CLI generations (incl. support-only on an empty root, symlinked/relative/dotted output "
            "directories, extension and stem overrides) run inside a sandbox that is snapshotted before and after; the set of "
            "created files is compared with the predicted one-file-per-type layout and every include/import of a referenced type "
            "is resolved against the files actually produced when its own root namespace is generated.",
    "note": "A component/short name that is already a valid unreserved path identifier must be unchanged (C09); for others only 'one "
            "path component, valid token' is demanded. Children iteration order is not judged.",
}
MANIFEST["text"] += " Output directory spellings are cycled (not drawn) and include a link to a directory elsewhere followed by '..'."
MANIFEST["text"] += ' Every walked set contains sibling namespaces whose names are prefixes of one another and namespaces with the same last component at the same depth under different parents.'


def path_component_ok(lang, original, got):
    """Independent path rule: unchanged when already valid for the 'path' category, else any single valid component."""
    from vlib.props.c09 import Predicate
    if lang.name in ("c", "cpp", "py"):
        if getattr(lang, "_verif_pred", None) is None:
            object.__setattr__(lang, "_verif_pred", Predicate(lang))
        pred = lang._verif_pred
    else:
        pred = None
    if os.sep in got or got in ("", ".", ".."):
        return False
    if not getattr(lang, "enable_stropping", True):
        return got == original      # configured off: components are taken as they are, everywhere alike
    if pred is None:
        return got == original or True
    if pred.why_bad(original, "path") is None and not pred.needs_encoding(original, "path"):
        return got == original
    return pred.why_bad(got, "path") is None


_PRED = {}


def walk_tree(ctx, ns, ts, out, lctx, witness):
    """Structural invariants of the namespace model (A)."""
    from nunavut import Namespace
    lang = lctx.get_target_language()
    ext = lang.extension
    ok = True

    def bad(what, **kw):
        nonlocal ok
        ok = False
        ctx.refute(None, what, dict(witness, **kw))
    dts = list(ns.get_all_datatypes())
    nss = list(ns.get_all_namespaces())
    allt = list(ns.get_all_types())
    keys = sorted(genrun.type_key(t) for t, _ in dts)
    want_keys = sorted(genrun.type_key(t) for t in ts)
    if keys != want_keys:
        bad("get_all_datatypes() does not contain each type exactly once",
            missing=[k for k in want_keys if k not in keys][:5], extra=[k for k in keys if keys.count(k) > 1 or k not in want_keys][:5])
    want_ns = set()
    for t in ts:
        comps = t.name_components[:-1]
        for i in range(1, len(comps) + 1):
            want_ns.add(".".join(comps[:i]))
    got_ns = [".".join(n._namespace_components) for n, _ in nss]
    if ts and sorted(got_ns) != sorted(want_ns):
        bad("get_all_namespaces() does not contain every prefix namespace exactly once",
            missing=sorted(want_ns - set(got_ns))[:5], extra=sorted(set(got_ns) - want_ns)[:5], duplicated=[g for g in set(got_ns) if got_ns.count(g) > 1][:5])
    # get_all_types = namespaces + datatypes
    n_ns = sum(1 for x, _ in allt if isinstance(x, Namespace))
    n_dt = len(allt) - n_ns
    if (n_ns, n_dt) != (len(nss), len(dts)):
        bad("get_all_types() is not the union of all namespaces and all data types", counts=(n_ns, n_dt, len(nss), len(dts)))
    # parent / child links
    if ns._parent is not None or ns.get_root_namespace() is not ns:
        bad("root namespace has a parent")
    for n, _ in nss:
        for c in n.get_nested_namespaces():
            if c._parent is not n:
                bad("child namespace %s does not link back to its parent %s" % (c.full_namespace, n.full_namespace))
            if c._namespace_components[:-1] != n._namespace_components:
                bad("namespace %s is a child of %s" % (".".join(c._namespace_components), ".".join(n._namespace_components)))
        if n is not ns:
            if n._parent is None or n not in set(n._parent.get_nested_namespaces()):
                bad("namespace %s is not reachable from its parent" % n.full_namespace)
            if n.get_root_namespace() is not ns:
                bad("namespace %s reports a different root" % n.full_namespace)
    # every type sits in the namespace node of its own namespace
    by_name = {".".join(n._namespace_components): n for n, _ in nss}
    for t, p in dts:
        node = by_name.get(t.full_namespace)
        if node is None or t not in node.data_types:
            bad("type %s is not held by the node of its namespace" % t)
        elif os.path.normpath(str(p.parent)) != os.path.normpath(str(node.output_folder)):
            bad("file of %s (%s) is not inside its namespace's output folder %s" % (t, p, node.output_folder))
    # total path lookup from every node
    for n, _ in nss:
        for t, p in dts:
            ctx.count("path_lookups")
            try:
                if n.find_output_path_for_type(t) != p:
                    bad("find_output_path_for_type(%s) from %s disagrees with get_all_datatypes()" % (t, n.full_namespace))
            except KeyError:
                bad("find_output_path_for_type(%s) raised KeyError from node %s" % (t, n.full_namespace or "<root>"))
                break
    # path shape + injectivity
    paths = collections.Counter(os.path.normpath(str(p)) for _, p in dts)
    dup = [k for k, v in paths.items() if v > 1]
    if dup:
        bad("distinct types share one output path", paths=dup[:3])
    outn = os.path.normpath(out)
    for t, p in dts:
        rel = os.path.relpath(os.path.normpath(str(p)), outn)
        parts = rel.split(os.sep)
        if parts[0] == "..":
            bad("path of %s leaves the output directory: %s" % (t, p))
            continue
        if len(parts) != len(t.name_components):
            bad("path depth of %s is %d, namespace depth %d: %s" % (t, len(parts), len(t.name_components), rel))
            continue
        suffix = "_%d_%d%s" % (t.version.major, t.version.minor, ext)
        if not parts[-1].endswith(suffix):
            bad("file name of %s does not end with %s: %s" % (t, suffix, rel))
            continue
        short = parts[-1][:-len(suffix)]
        for orig, got in list(zip(t.name_components[:-1], parts[:-1])) + [(t.short_name, short)]:
            ctx.count("path_components_checked")
            if not path_component_ok(lang, orig, got):
                bad("path component %r of %s became %r" % (orig, t, got), rel=rel)
    return ok


FRESH_PATHS = r"""
import sys, json, os
sys.path.insert(0, %(verif)r)
import pydsdl, nunavut
from vlib import genrun
dsdl, roots, root, lang, overrides = json.loads(sys.argv[1])
types = pydsdl.read_namespace(os.path.join(dsdl, root), [os.path.join(dsdl, x) for x in roots if x != root], allow_unregulated_fixed_port_id=True)
lctx = genrun.lang_context(lang, overrides=overrides)
ns = nunavut.build_namespace_tree(types, os.path.join(dsdl, root), "outq", lctx)
print(json.dumps({"%%s.%%d.%%d" %% (t.full_name, t.version.major, t.version.minor): os.path.relpath(os.path.normpath(str(p)), os.path.normpath(str(ns.output_folder)))
                  for t, p in ns.get_all_datatypes()}))
"""


def fresh_paths(dsdl, roots, root, lang, overrides):
    r = common.run([common.PY, "-c", FRESH_PATHS % dict(verif=common.VERIF), json.dumps([dsdl, roots, root, lang, overrides])], env=common.child_env(), timeout=300)
    if r.returncode != 0:
        return None
    try:
        return json.loads(r.stdout.strip().splitlines()[-1])
    except Exception:
        return None


def part_a(ctx, nsets):
    R = random.Random("c11a/%s" % ctx.seed)
    d = ctx.sub("a")
    for i in range(nsets):
        roots, parsed, _ = dsdlgen.make_set(os.path.join(d, "dsdl"), "c11/%s/%d" % (ctx.seed, i), "hostile" if i % 3 else "codec", nroots=R.choice([1, 2, 3]),
                                            extents=False, docs=False)
        # sibling namespaces whose names are textual prefixes of one another (nodq / nodq2 / nodq2x / nod), with deeper levels below some
        r0 = os.path.join(d, "dsdl", roots[0])
        for sub, name in (("nodq", "Pq"), ("nodq2", "Qq"), (os.path.join("nodq2x", "deepq"), "Rq"), ("nod", "Sq"), (os.path.join("nodq", "nodq"), "Tq"),
                          (os.path.join("nodq2", "innerq"), "Uq"),
                          # the same last component at the same depth under different parents, with further levels below
                          (os.path.join("nodq", "commonq"), "Vq"), (os.path.join("nodq2", "commonq"), "Wq"), (os.path.join("nod", "commonq", "leafq"), "Xq"),
                          (os.path.join("nodq2", "commonq", "leafq"), "Yq")):
            os.makedirs(os.path.join(r0, sub), exist_ok=True)
            with open(os.path.join(r0, sub, name + ".1.0.dsdl"), "w") as f:
                f.write("uint8 v\n@sealed\n")
        parsed = dsdlgen.read_all(os.path.join(d, "dsdl"), roots)
        for root in roots:
            types = parsed[root]
            for variant in range(3):
                ts = list(types)
                if variant == 1:
                    R.shuffle(ts)
                if variant == 2:
                    ts = [t for t in ts if R.random() < 0.5] or ts[:1]
                for lang in ("c", "cpp", "py", "html"):
                    out = R.choice(["out", os.path.join(d, "abs_out") + "/", "./o/../out", os.path.join(d, "x", "y")])
                    overrides = {}
                    if R.random() < 0.25:
                        overrides["extension"] = R.choice([".hh", ".xyz", ".gen.h", ".dsdl.hpp"])
                    if R.random() < 0.2:
                        overrides["namespace_file_stem"] = R.choice(["_", "nsx"])
                    if lang != "html" and R.random() < 0.3:
                        # consecutive contexts of one language with different stropping rules in this process
                        overrides["stropping_prefix"] = R.choice(["zq_", "dsdl_", "_"])
                    if lang != "html" and R.random() < 0.12:
                        overrides["enable_stropping"] = False
                    lctx = genrun.lang_context(lang, overrides=overrides)
                    import nunavut
                    witness = dict(set=i, seed=ctx.seed, root=root, lang=lang, variant=["as parsed", "shuffled", "subset"][variant], out=out,
                                   overrides=overrides, types=[str(t) for t in ts][:12])
                    try:
                        ns = nunavut.build_namespace_tree(ts, os.path.join(d, "dsdl", root), out, lctx)
                    except Exception as e:
                        ctx.refute(None, "build_namespace_tree raised %r" % e, witness)
                        continue
                    ctx.count("evaluations")
                    ctx.count("trees_walked")
                    if walk_tree(ctx, ns, ts, out, lctx, witness):
                        ctx.count("trees_ok")
                    if (overrides and R.random() < 0.5) or R.random() < 0.08:
                        # the path of a type is a function of type, language and configuration: a fresh process must agree
                        here = {"%s.%d.%d" % (t.full_name, t.version.major, t.version.minor): os.path.relpath(os.path.normpath(str(p)), os.path.normpath(str(ns.output_folder)))
                                for t, p in ns.get_all_datatypes()}
                        fresh = fresh_paths(os.path.join(d, "dsdl"), roots, root, lang, overrides)
                        ctx.count("fresh_process_path_maps")
                        if fresh is None:
                            ctx.count("fresh_process_failed")
                        else:
                            for k, rel in here.items():
                                ctx.count("evaluations")
                                if fresh.get(k) != rel:
                                    ctx.refute(None, "path of %s is %s here (after earlier contexts in this process) but %s in a fresh process" % (k, rel, fresh.get(k)), witness)
                                    break
                            else:
                                ctx.count("fresh_process_path_maps_agree")
                    ctx.distinct(("a", i, root, lang, variant, out, tuple(sorted(overrides.items()))))
        # the empty tree
        import nunavut
        lctx = genrun.lang_context("c")
        ns = nunavut.build_namespace_tree([], os.path.join(d, "dsdl", roots[0]), "out", lctx)
        if list(ns.get_all_datatypes()):
            ctx.refute(None, "empty type list yields data types", {})
    ctx.sample({"set": i, "roots": roots, "sample_types": [str(t) for t in parsed[roots[0]]][:5]})


INC = re.compile(r'^\s*#\s*include\s+"([^"]+)"', re.M)
PYIMP = re.compile(r"^\s*import\s+([A-Za-z_][\w\.]*)\s*$", re.M)


def part_b(ctx, nruns):
    """Real CLI generations in a snapshotted sandbox."""
    R = random.Random("c11b/%s" % ctx.seed)
    for i in range(nruns):
        sb = ctx.sub("sb%d" % i)
        roots, parsed, _ = dsdlgen.make_set(os.path.join(sb, "in", "dsdl"), "c11b/%s/%d" % (ctx.seed, i), "hostile" if i % 2 else "codec", nroots=2, extents=False, docs=False)
        lang = ["c", "cpp", "py", "html"][i % 4]
        os.makedirs(os.path.join(sb, "work"))
        os.makedirs(os.path.join(sb, "real_parent"))
        os.symlink(os.path.join(sb, "real_parent"), os.path.join(sb, "link_parent"))
        # a link to a directory that lives elsewhere, followed by "..": the directory the operating system resolves, not the one a
        # lexical clean-up of the spelling names (<sb>/work/hop -> <sb>/real_parent/deep, so hop/.. is <sb>/real_parent)
        os.makedirs(os.path.join(sb, "real_parent", "deep"))
        os.symlink(os.path.join(sb, "real_parent", "deep"), os.path.join(sb, "work", "hop"))
        spellings = ["relative", "absolute", "dotted", "trailing", "symlink", "symlink_dotdot", "symlink_dotdot_abs"]
        spelling = spellings[(i + ctx.seed) % len(spellings)]
        R.random()
        outdir = {"relative": "outq", "absolute": os.path.join(sb, "work", "outq"), "dotted": "./zz/../outq", "trailing": "outq/",
                  "symlink": os.path.join(sb, "link_parent", "outq"), "symlink_dotdot": "hop/../outq",
                  "symlink_dotdot_abs": os.path.join(sb, "work", "hop", "..", "outq") + "/"}[spelling]
        if spelling == "dotted":
            os.makedirs(os.path.join(sb, "work", "zz"))
        real_out = os.path.join(sb, "real_parent", "outq") if spelling.startswith("symlink") else os.path.join(sb, "work", "outq")
        extra = []
        ext = {"c": ".h", "cpp": ".hpp", "py": ".py", "html": ".html"}[lang]
        if R.random() < 0.3:
            ext = R.choice([".hh", ".xyz", ".gen.h", ".dsdl.hpp"])
            extra += ["--output-extension", ext]
        cfg_over = {}
        if lang != "html" and R.random() < 0.3:
            cfg_over = R.choice([{"enable_stropping": False}, {"stropping_prefix": "zq_"}, {"enable_stropping": False}])
            import yaml
            cfgp = os.path.join(sb, "in", "cfg.yaml")
            with open(cfgp, "w") as f:
                yaml.safe_dump({"nunavut.lang." + lang: cfg_over}, f)
            extra += ["--configuration", cfgp]
        if R.random() < 0.3 and lang in ("py", "html"):
            # the built-in C and C++ template sets have no Namespace/Any template: nnvg refuses the option there ("No template found"),
            # which is a refused configuration, not a mapping of types onto files
            extra += ["--generate-namespace-types"]
        before = common.snapshot(sb)
        results = genrun.nnvg_all_roots(os.path.join(sb, "in", "dsdl"), roots, outdir, lang, extra=extra, cwd=os.path.join(sb, "work"))
        ctx.count("evaluations")
        ctx.count("cli_generations")
        witness = dict(run=i, seed=ctx.seed, lang=lang, out_spelling=spelling, extra=extra, roots=roots)
        if any(r.returncode != 0 for r in results):
            ctx.refute(None, "nnvg failed", dict(witness, stderr=[r.stderr[-800:] for r in results if r.returncode != 0][:1]))
            continue
        after = common.snapshot(sb)
        created = sorted(set(after) - set(before))
        changed = sorted(k for k in before if k in after and before[k] != after[k] and before[k][0] == "f")
        rel_out = os.path.relpath(real_out, sb)
        outside = [p for p in created if not (p == rel_out or p.startswith(rel_out + os.sep)) and not (p == "work/zz")]
        ctx.count("cli_generations[%s]" % spelling)
        if outside or changed:
            ctx.refute(None, "generation created or modified something outside the output directory", dict(witness, outside=outside[:8], modified=changed[:8]))
        files = {os.path.relpath(p, rel_out): after[p] for p in created if after[p][0] == "f" and p.startswith(rel_out + os.sep)}
        ctx.count("files_created", len(files))
        # one file per type, at the predicted place
        alltypes = [t for r in roots for t in parsed[r]]
        seen_paths = {}
        for t in alltypes:
            cands = [f for f in files if f.endswith("%s_%d_%d%s" % ("", t.version.major, t.version.minor, ext)) and len(f.split(os.sep)) == len(t.name_components)]
            lctx = genrun.lang_context(lang, overrides=dict(cfg_over, **({"extension": ext} if "--output-extension" in extra else {})) or None)
            from nunavut.lang._common import IncludeGenerator
            pred = IncludeGenerator.make_path(t, lctx.get_target_language(), ext).as_posix()
            ctx.count("type_files_checked")
            if pred not in files:
                ctx.refute(None, "no file for type %s at %s" % (t, pred), dict(witness, candidates=cands[:5]))
            elif pred in seen_paths:
                ctx.refute(None, "types %s and %s share the file %s" % (t, seen_paths[pred], pred), witness)
            seen_paths[pred] = str(t)
            ctx.distinct(("b", i, pred))
        # include / import targets of referenced types exist (same relative path generated vs referenced)
        for f in files:
            full = os.path.join(real_out, f)
            try:
                text = open(full, encoding="utf-8").read()
            except Exception:
                continue
            if lang in ("c", "cpp"):
                for inc in INC.findall(text):
                    ctx.count("references_resolved")
                    if inc not in files:
                        ctx.refute(None, "%s includes \"%s\" which no generated file provides" % (f, inc), witness)
            elif lang == "py":
                for mod in PYIMP.findall(text):
                    top = {x.split(os.sep)[0] for x in files if os.sep in x}
                    if mod.split(".")[0] not in top:     # standard library / third party / support module
                        continue
                    ctx.count("references_resolved")
                    if mod.replace(".", os.sep) + ext not in files and mod.replace(".", os.sep) + os.sep + "__init__" + ext not in files:
                        ctx.refute(None, "%s imports %s which no generated file provides" % (f, mod), witness)
    ctx.sample({"cli_run": witness, "files": sorted(files)[:8]})


def part_c(ctx):
    """Empty type set + support generation must stay inside the output directory (API and CLI)."""
    import nunavut
    import nunavut.jinja
    for lang in ("c", "cpp", "py"):
        for mode in ("api", "cli"):
            sb = ctx.sub("sc_%s_%s" % (lang, mode))
            os.makedirs(os.path.join(sb, "work"))
            os.makedirs(os.path.join(sb, "in", "emptyroot"))
            before = common.snapshot(sb)
            ctx.count("evaluations")
            ctx.count("empty_support_runs")
            if mode == "cli":
                r = genrun.nnvg(["-l", lang, "-O", "outq", "--experimental-languages", "--generate-support", "only", os.path.join(sb, "in", "emptyroot")], cwd=os.path.join(sb, "work"))
                if r.returncode != 0:
                    ctx.refute(None, "nnvg --generate-support only failed", dict(lang=lang, stderr=r.stderr[-600:]))
                    continue
            else:
                cwd = os.getcwd()
                os.chdir(os.path.join(sb, "work"))
                try:
                    lctx = genrun.lang_context(lang)
                    ns = nunavut.build_namespace_tree([], os.path.join(sb, "in", "emptyroot"), "outq", lctx)
                    nunavut.jinja.SupportGenerator(ns).generate_all()
                finally:
                    os.chdir(cwd)
            after = common.snapshot(sb)
            created = sorted(set(after) - set(before))
            outside = [p for p in created if not (p == "work/outq" or p.startswith("work/outq" + os.sep))]
            if outside:
                ctx.refute(None, "support generation for an empty namespace wrote outside the output directory", dict(lang=lang, mode=mode, outside=outside[:6]))
            elif not created:
                ctx.refute(None, "support generation for an empty namespace produced nothing", dict(lang=lang, mode=mode))
            else:
                ctx.count("empty_support_ok")
            ctx.distinct(("c", lang, mode))


def run(ctx):
    ctx.rule = ("case = (namespace set, root, language, type list variant, output-dir spelling, extension/stem override) for the walker; "
                "(set, language, output spelling, options) for sandboxed CLI generations; distinct = distinct walked configurations + distinct type files checked")
    part_a(ctx, ctx.pick(12, 250))
    part_b(ctx, ctx.pick(8, 80))
    part_c(ctx)
    ctx.require("trees_ok", 100)
    ctx.require("path_lookups", 2000)
    ctx.require("path_components_checked", 2000)
    ctx.require("type_files_checked", 30)
    ctx.require("references_resolved", 5)
    ctx.require("empty_support_ok", 4)
