"""Code bases: (namespace set, language, option set) -> generated code + harness, with a uniform vector interface.

A vector is a dict:
  {"op": "ser", "ti": type index, "value": refmodel value, "bufsize": int | None (None = advertised buffer size + slack), "pre": 0..3, "objpre": 0..3,
   "raw": optional bytes of a hand-made value stream (hostile counts/tags)}
  {"op": "des", "ti": type index, "data": bytes, "prior": 0..3, "prior_data": bytes, "null_when_empty": bool}
A result is a dict: {"st": "ok"|"err"|"crash"|"missing"|"exc"|"none", "rc": int, "size": int, "bytes": bytes | None, "value": value | None, ...}
"""
import os
import struct

import pydsdl

from vlib import build, common, genrun, harness_c, refmodel as M


def messages_of(parsed, roots):
    out = []
    for r in roots:
        for T in parsed[r]:
            out += [T.request_type, T.response_type] if isinstance(T, pydsdl.ServiceType) else [T]
    return out


def key(t):
    return "%s.%d.%d" % (t.full_name, t.version.major, t.version.minor)


# process history for the next generation: (dsdl_dir, roots) of another namespace set that is generated first, into a scratch output
# directory, by the SAME interpreter (several CLI invocations through vlib/launch_nnvg.py).  Set by a check around build_bases().
HISTORY = None
# an earlier run into the SAME output directory: (dsdl_dir, roots, after) of the version of the namespace set that was generated there
# before (own process, same options); `after` is called between the two runs (e.g. to date the edited definitions after that run).
EARLIER = None


def gen_cli(dsdl_dir, roots, out, lang, flags, cwd):
    if EARLIER is not None:
        rs = genrun.nnvg_all_roots(EARLIER[0], EARLIER[1], out, lang, extra=flags, cwd=cwd)
        bad = [r for r in rs if r.returncode != 0]
        if bad:
            return False, "earlier run: " + bad[0].stderr[-1500:]
        if EARLIER[2]:
            EARLIER[2]()
    if HISTORY is None:
        rs = genrun.nnvg_all_roots(dsdl_dir, roots, out, lang, extra=flags, cwd=cwd)
        bad = [r for r in rs if r.returncode != 0]
        return (not bad), (bad[0].stderr[-1500:] if bad else "")
    import json
    runs = []
    for d, rts, o in ((HISTORY[0], HISTORY[1], os.path.join(cwd, "history_out")), (dsdl_dir, roots, out)):
        for root in rts:
            cmd = ["-l", lang, "-O", o, os.path.join(d, root), "--allow-unregulated-fixed-port-id", "--experimental-languages"] + list(flags)
            for x in rts:
                if x != root:
                    cmd += ["-I", os.path.join(d, x)]
            runs.append(cmd)
    r = common.run([common.PY, os.path.join(common.VERIF, "vlib", "launch_nnvg.py")], cwd=cwd, env=dict(common.child_env(), VERIF_ARGV_JSON=json.dumps(runs)), timeout=900)
    return r.returncode == 0, r.stderr[-1500:]


class CBase:
    """C11 code base under a sanitizer build."""
    lang = "c"

    def __init__(self, workdir, dsdl_dir, roots, parsed, flags=(), kind="asan", asserts=True, defines=(), name="c"):
        self.name = name
        self.flags = list(flags)
        self.kind = kind
        self.msgs = messages_of(parsed, roots)
        self.error = None
        self.dir = os.path.join(workdir, name)
        os.makedirs(self.dir, exist_ok=True)
        out = os.path.join(self.dir, "gen")
        fl = list(flags) + (["--enable-serialization-asserts"] if asserts else [])
        ok, err = gen_cli(dsdl_dir, roots, out, "c", fl, self.dir)
        if not ok:
            self.error = ("generation", err)
            return
        opts = {}
        if "--target-endianness" in fl:
            opts["target_endianness"] = fl[fl.index("--target-endianness") + 1]
        lctx = genrun.lang_context("c")
        self.h = harness_c.CHarness(lctx.get_target_language(), self.msgs)
        top = [T for r in roots for T in parsed[r]]
        src = os.path.join(self.dir, "harness.c")
        with open(src, "w") as f:
            f.write(self.h.source(top, asserts=asserts))
        self.bin = os.path.join(self.dir, "harness_" + kind)
        ok, err = build.compile_unit(src, self.bin, [out], kind, defines=defines)
        if not ok:
            self.error = ("harness-build", err[-3000:])

    def frames(self, vectors):
        fr = []
        for vid, v in enumerate(vectors):
            t = self.msgs[v["ti"]]
            if v["op"] == "ser":
                payload = v.get("raw")
                if payload is None:
                    payload = bytes(M.vs_write(t, v["value"], bytearray()))
                bufsize = v["bufsize"]
                fr.append((vid, build.frame(1, v["ti"], vid, bufsize, payload, v.get("pre", 0), 0, v.get("objpre", 2))))
            elif v["op"] == "des":
                fr.append((vid, build.frame(2, v["ti"], vid, 0, v["data"], 0 if v.get("null_when_empty", True) else 1, v.get("prior", 0), 0, v.get("prior_data", b""))))
            elif v["op"] == "init":
                fr.append((vid, build.frame(3, v["ti"], vid)))
        return fr

    def run(self, vectors):
        results, crashes, inc = build.run_vectors(self.bin, self.frames(vectors), self.kind)
        out = []
        crashed = {c[0]: c for c in crashes if c[0] is not None}
        for vid, v in enumerate(vectors):
            t = self.msgs[v["ti"]]
            if vid in crashed:
                c = crashed[vid]
                out.append({"st": "crash", "kind": c[1], "frames": c[2], "text": c[3]})
                continue
            if vid not in results:
                out.append({"st": "missing"})
                continue
            rc, size, data, live = results[vid]
            if rc < 0:
                out.append({"st": "err", "rc": rc, "size": size, "live": live})
            elif v["op"] == "ser":
                out.append({"st": "ok", "rc": rc, "size": size, "bytes": bytes(data), "live": live})
            elif v["op"] == "noop":
                out.append({"st": "ok", "rc": rc, "size": size, "live": live})
            else:
                try:
                    val = M.vs_read(t, M.VSReader(data))
                    out.append({"st": "ok", "rc": rc, "size": size, "value": val, "live": live})
                except Exception as e:
                    out.append({"st": "baddump", "rc": rc, "size": size, "why": str(e), "live": live})
        exit_reports = [c for c in crashes if c[0] is None]
        return out, exit_reports, inc

    def consts(self):
        frames = [(i, build.frame(9, i, i)) for i in range(len(self.msgs))]
        env = dict(os.environ, **build.SAN_ENV)
        import subprocess
        p = subprocess.run([self.bin], input=b"".join(f for _, f in frames), capture_output=True, env=env, timeout=600)
        out = {}
        cur = None
        for line in p.stdout.decode("utf-8", "replace").splitlines():
            if line.startswith("BEGIN "):
                cur = int(line.split()[1])
                out[cur] = []
            elif line == "END":
                cur = None
            elif cur is not None:
                out[cur].append(line)
        return out, p.returncode, p.stderr.decode("utf-8", "replace")[-1500:]


class CppBase(CBase):
    """C++ code base (c++14 built-in variant, c++17 std::variant, c++20, c++17-pmr) under a sanitizer build."""
    lang = "cpp"

    def __init__(self, workdir, dsdl_dir, roots, parsed, std="c++14", flags=(), kind="asan", asserts=True, name=None, config=None):
        from vlib import harness_cpp
        self.name = name or ("cpp_" + std)
        self.std = std
        self.flags = list(flags)
        self.kind = kind
        self.msgs = messages_of(parsed, roots)
        self.error = None
        self.dir = os.path.join(workdir, self.name)
        os.makedirs(self.dir, exist_ok=True)
        out = os.path.join(self.dir, "gen")
        fl = list(flags) + ["--language-standard", std] + (["--enable-serialization-asserts"] if asserts else [])
        if config:
            cfg = os.path.join(self.dir, "config.yaml")
            import yaml
            with open(cfg, "w") as f:
                yaml.safe_dump({"nunavut.lang.cpp": {k: v for k, v in config.items() if not k.startswith("_")}}, f)
            fl += ["--configuration", cfg]
        ok, err = gen_cli(dsdl_dir, roots, out, "cpp", fl, self.dir)
        if not ok:
            self.error = ("generation", err)
            return
        lctx = genrun.lang_context("cpp", options={"std": std})
        self.h = harness_cpp.CppHarness(lctx.get_target_language(), self.msgs)
        for r in roots:
            for T in parsed[r]:
                if isinstance(T, pydsdl.ServiceType):
                    self.h.port_owner[key(T.request_type)] = T
                    self.h.port_owner[key(T.response_type)] = T
        top = [T for r in roots for T in parsed[r]]
        src = os.path.join(self.dir, "harness.cpp")
        with open(src, "w") as f:
            f.write(self.h.source(top, asserts=asserts))
        self.bin = os.path.join(self.dir, "harness_" + kind)
        cstd = {"c++14": "c++14", "c++17": "c++17", "c++20": "c++20", "c++17-pmr": "c++17"}[std]
        ok, err = build.compile_unit(src, self.bin, [out] + ([os.path.dirname(config["_include_dir"])] if config and config.get("_include_dir") else []), kind, cxx=True, std=cstd)
        if not ok:
            self.error = ("harness-build", err[-3000:])

    def frames(self, vectors):
        fr = []
        for vid, v in enumerate(vectors):
            t = self.msgs[v["ti"]]
            if v["op"] == "ser":
                payload = v.get("raw")
                if payload is None:
                    payload = bytes(M.vs_write(t, v["value"], bytearray(), clip=False))
                fr.append((vid, build.frame(1, v["ti"], vid, v["bufsize"], payload, v.get("pre", 0), 0, 0)))
            elif v["op"] == "des":
                fr.append((vid, build.frame(2, v["ti"], vid, 0, v["data"], 0, 3 if v.get("prior", 0) == 3 else 0, 0, v.get("prior_data", b""))))
            elif v["op"] == "init":
                fr.append((vid, build.frame(3, v["ti"], vid)))
            elif v["op"] == "copy":
                fr.append((vid, build.frame(4, v["ti"], vid, 0, bytes(M.vs_write(t, v["value"], bytearray(), clip=False)), 0, 0, 0,
                                            bytes(M.vs_write(t, v["other"], bytearray(), clip=False)))))
        return fr


class PyBase:
    """Python code base driven through the child interpreter."""
    lang = "py"

    def __init__(self, workdir, dsdl_dir, roots, parsed, flags=(), name="py"):
        from vlib import harness_py
        self.name = name
        self.flags = list(flags)
        self.msgs = messages_of(parsed, roots)
        self.error = None
        self.dir = os.path.join(workdir, name)
        os.makedirs(self.dir, exist_ok=True)
        out = os.path.join(self.dir, "gen")
        ok, err = gen_cli(dsdl_dir, roots, out, "py", list(flags), self.dir)
        if not ok:
            self.error = ("generation", err)
            return
        try:
            self.child = harness_py.PyChild(out, dsdl_dir, roots, shim=True)
        except Exception as e:
            self.error = ("import", str(e)[-2000:])

    def run(self, vectors):
        from vlib import pychild
        cmds = []
        for v in vectors:
            t = self.msgs[v["ti"]]
            if v["op"] == "ser":
                cmds.append({"op": "ser", "type": key(t), "value": pychild.jval(t, v["value"])})
            else:
                # the representation arrives as a sequence of fragments: whole, cut at arbitrary places, with empty fragments in between,
                # and - for the empty representation - as no fragment at all
                data = bytes(v["data"])
                cmd = {"op": "des", "type": key(t), "hex": data.hex()}
                n = len(cmds) + len(data)
                if n % 4 == 1 and len(data) > 1:
                    cmd["fragments"] = sorted({(n * 7) % len(data), (n * 13) % len(data)})
                elif n % 4 == 2 and len(data) > 0:
                    c = (n * 5) % (len(data) + 1)
                    cmd["fragments"] = [0, c, c, len(data)]
                elif len(data) == 0 and n % 2:
                    cmd["nofrag"] = True
                cmds.append(cmd)
        rs = self.child.call_many(cmds)
        out = []
        for v, r in zip(vectors, rs):
            t = self.msgs[v["ti"]]
            if r["st"] == "ok" and v["op"] == "ser":
                out.append({"st": "ok", "rc": 0, "size": len(r["hex"]) // 2, "bytes": bytes.fromhex(r["hex"]), "live_hex": r.get("live_hex"), "live_stable": r.get("live_stable")})
            elif r["st"] == "ok":
                out.append({"st": "ok", "rc": 0, "size": None, "value": pychild.unj(t, r["value"]), "reser": r.get("reser")})
            elif r["st"] == "none":
                out.append({"st": "err", "rc": -1, "size": None})
            else:
                out.append({"st": "exc", "exc": r.get("exc"), "msg": r.get("msg"), "env_numpy2": r.get("env_numpy2", False), "tb": r.get("tb")})
        return out, [], None

    def consts(self):
        rs = self.child.call_many([{"op": "consts", "type": key(t)} for t in self.msgs])
        return {i: r for i, r in enumerate(rs)}

    def close(self):
        if getattr(self, "child", None):
            self.child.close()
