// Stand-in for CETL's "cetl/pf17/sys/memory_resource.hpp" (the CETL submodule is empty in this sandbox).
// Only what code generated with --language-standard cetl++14-17 names: cetl::pf17::pmr::polymorphic_allocator<T>,
// a C++14 polymorphic allocator that is NOT default constructible (allocator_is_default_constructible: false).
#ifndef VERIF_CETL_STUB_MEMORY_RESOURCE_HPP
#define VERIF_CETL_STUB_MEMORY_RESOURCE_HPP
#include <cstddef>
#include <new>
namespace cetl { namespace pf17 { namespace pmr {
class memory_resource
{
public:
    virtual ~memory_resource() = default;
    void* allocate(std::size_t bytes, std::size_t alignment = alignof(std::max_align_t)) { return do_allocate(bytes, alignment); }
    void  deallocate(void* p, std::size_t bytes, std::size_t alignment = alignof(std::max_align_t)) { do_deallocate(p, bytes, alignment); }
    bool  is_equal(const memory_resource& other) const noexcept { return do_is_equal(other); }
private:
    virtual void* do_allocate(std::size_t bytes, std::size_t alignment) = 0;
    virtual void  do_deallocate(void* p, std::size_t bytes, std::size_t alignment) = 0;
    virtual bool  do_is_equal(const memory_resource& other) const noexcept = 0;
};
template <typename T>
class polymorphic_allocator
{
public:
    using value_type = T;
    polymorphic_allocator(memory_resource* r) noexcept : r_(r) {}   // NOLINT: implicit like std::pmr
    polymorphic_allocator(const polymorphic_allocator&) noexcept = default;
    template <typename U> polymorphic_allocator(const polymorphic_allocator<U>& o) noexcept : r_(o.resource()) {}   // NOLINT
    polymorphic_allocator& operator=(const polymorphic_allocator&) = delete;
    T*   allocate(std::size_t n) { return static_cast<T*>(r_->allocate(n * sizeof(T), alignof(T))); }
    void deallocate(T* p, std::size_t n) { r_->deallocate(p, n * sizeof(T), alignof(T)); }
    polymorphic_allocator select_on_container_copy_construction() const { return *this; }
    memory_resource* resource() const noexcept { return r_; }
private:
    memory_resource* r_;
};
template <> class polymorphic_allocator<void>
{
public:
    using value_type = void;
    polymorphic_allocator(memory_resource* r) noexcept : r_(r) {}   // NOLINT
    polymorphic_allocator(const polymorphic_allocator&) noexcept = default;
    template <typename U> polymorphic_allocator(const polymorphic_allocator<U>& o) noexcept : r_(o.resource()) {}   // NOLINT
    polymorphic_allocator& operator=(const polymorphic_allocator&) = delete;
    memory_resource* resource() const noexcept { return r_; }
private:
    memory_resource* r_;
};
template <typename A, typename B>
bool operator==(const polymorphic_allocator<A>& a, const polymorphic_allocator<B>& b) noexcept { return a.resource() == b.resource() || a.resource()->is_equal(*b.resource()); }
template <typename A, typename B>
bool operator!=(const polymorphic_allocator<A>& a, const polymorphic_allocator<B>& b) noexcept { return !(a == b); }
}}}  // namespace cetl::pf17::pmr
#endif
