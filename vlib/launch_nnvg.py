"""E6 launcher: runs the real CLI entry point (nunavut.cli.main) with monitors installed first.

  python launch_nnvg.py <nnvg args...>                       one invocation
  VERIF_ARGV_JSON='[[...],[...]]' python launch_nnvg.py      several invocations in ONE interpreter (process history)

Environment:
  VERIF_TIME_SHIFT_DAYS=N   time.time() and datetime.datetime.now/utcnow as seen by everything in this process are shifted
  VERIF_AUDIT_LOG=path      every file-system mutation event (sys.addaudithook) is appended to this file as JSON lines
  VERIF_AMBIENT_LOG=path    every clock / cwd / platform / environment read made from a nunavut frame is logged
"""
import json
import os
import sys


def install_time_shift(days):
    import datetime as _dt
    import time as _time
    shift = days * 86400.0
    real_time = _time.time

    def fake_time():
        return real_time() + shift
    _time.time = fake_time
    real_dt = _dt.datetime
    delta = _dt.timedelta(seconds=shift)

    class ShiftedDateTime(real_dt):
        @classmethod
        def now(cls, tz=None):
            return real_dt.now(tz) + delta

        @classmethod
        def utcnow(cls):
            return real_dt.utcnow() + delta

        @classmethod
        def today(cls):
            return real_dt.today() + delta
    _dt.datetime = ShiftedDateTime


MUTATING = {"os.mkdir", "os.rename", "os.remove", "os.rmdir", "os.chmod", "os.utime", "os.symlink", "os.link", "os.truncate",
            "shutil.copyfile", "shutil.copymode", "shutil.copystat", "shutil.move", "shutil.rmtree", "os.chown", "os.replace",
            "subprocess.Popen", "os.system", "os.exec", "os.posix_spawn", "tempfile.mkstemp", "tempfile.mkdtemp"}


def install_audit(path):
    log = open(path, "a", buffering=1)

    def hook(event, args):
        try:
            if event == "open":
                p, mode, flags = (list(args) + [None, None, None])[:3]
                if not isinstance(p, (str, bytes)):
                    return
                writing = (isinstance(mode, str) and any(c in mode for c in "wax+")) or (isinstance(flags, int) and flags & (os.O_WRONLY | os.O_RDWR | os.O_CREAT | os.O_TRUNC | os.O_APPEND))
                log.write(json.dumps({"e": "open", "p": os.path.abspath(os.fsdecode(p)), "w": bool(writing)}) + "\n")
            elif event in MUTATING:
                log.write(json.dumps({"e": event, "a": [os.path.abspath(os.fsdecode(a)) if isinstance(a, (str, bytes)) else
                                                         os.path.abspath(os.fspath(a)) if hasattr(a, "__fspath__") else repr(a)[:80] for a in args[:3]]}) + "\n")
        except Exception:   # the monitor must never disturb the program it observes
            pass
    sys.addaudithook(hook)


def install_ambient(path):
    """Log reads of ambient state made from nunavut frames (call sites are evidence, not verdicts)."""
    import time as _time
    import os as _os
    import platform as _platform
    log = open(path, "a", buffering=1)

    def caller():
        f = sys._getframe(2)
        while f is not None:
            fn = f.f_code.co_filename
            if "nunavut" in fn and "jinja2" not in fn:
                return "%s:%d" % (os.path.relpath(fn, os.environ.get("VERIF_REPO", "/repo")), f.f_lineno)
            f = f.f_back
        return None

    def wrap(mod, name, label):
        orig = getattr(mod, name)

        def w(*a, **k):
            c = caller()
            if c:
                log.write(json.dumps({"read": label, "site": c}) + "\n")
            return orig(*a, **k)
        setattr(mod, name, w)
    wrap(_time, "time", "time.time")
    wrap(_os, "getcwd", "os.getcwd")
    wrap(_platform, "python_version", "platform.python_version")
    wrap(_platform, "platform", "platform.platform")
    wrap(_platform, "node", "platform.node")


def main():
    days = float(os.environ.get("VERIF_TIME_SHIFT_DAYS", "0") or 0)
    if days:
        install_time_shift(days)
    if os.environ.get("VERIF_AMBIENT_LOG"):
        install_ambient(os.environ["VERIF_AMBIENT_LOG"])
    if os.environ.get("VERIF_AUDIT_LOG"):
        install_audit(os.environ["VERIF_AUDIT_LOG"])
    import nunavut.cli
    runs = json.loads(os.environ["VERIF_ARGV_JSON"]) if os.environ.get("VERIF_ARGV_JSON") else [sys.argv[1:]]
    rc = 0
    for i, argv in enumerate(runs):
        sys.argv = ["nnvg"] + list(argv)
        try:
            r = nunavut.cli.main()
            rc = r if isinstance(r, int) else 0
        except SystemExit as e:
            rc = e.code if isinstance(e.code, int) else (0 if e.code is None else 1)
        if rc != 0:
            sys.stderr.write("VERIF-LAUNCH: invocation %d exited with %r\n" % (i, rc))
            if i < len(runs) - 1:
                continue
    sys.exit(rc)


if __name__ == "__main__":
    main()
