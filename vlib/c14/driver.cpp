// C14 driver for the generated C++ support header: the C driver's tests run against the bitspan API through a thin shim.
#define VERIF_CPP_SHIM 1
#include <cstdint>
#include <cstddef>
#include <cmath>
#include "nunavut/support/serialization.hpp"
using nunavut::support::bitspan;
using nunavut::support::const_bitspan;
template <typename R> static int8_t rcof(const R& r) { return r ? static_cast<int8_t>(0) : static_cast<int8_t>(-static_cast<int>(r.error())); }
static void nunavutCopyBits(void* dst, std::size_t dof, std::size_t len, const void* src, std::size_t so) {
    const_bitspan s(static_cast<const std::uint8_t*>(src), (so + len + 7) / 8, so); bitspan d(static_cast<std::uint8_t*>(dst), (dof + len + 7) / 8, dof); s.copyTo(d, len);
}
static void nunavutGetBits(void* out, const void* buf, std::size_t bs, std::size_t off, std::size_t len) {
    const_bitspan(static_cast<const std::uint8_t*>(buf), bs, off).getBits(nunavut::support::bytespan(static_cast<std::uint8_t*>(out), (len + 7) / 8), len);
}
static int8_t nunavutSetBit(std::uint8_t* b, std::size_t bs, std::size_t off, bool v) { return rcof(bitspan(b, bs, off).setBit(v)); }
static int8_t nunavutSetUxx(std::uint8_t* b, std::size_t bs, std::size_t off, std::uint64_t v, std::uint8_t len) { return rcof(bitspan(b, bs, off).setUxx(v, len)); }
static int8_t nunavutSetIxx(std::uint8_t* b, std::size_t bs, std::size_t off, std::int64_t v, std::uint8_t len) { return rcof(bitspan(b, bs, off).setIxx(v, len)); }
static bool nunavutGetBit(const std::uint8_t* b, std::size_t bs, std::size_t off) { return const_bitspan(b, bs, off).getBit(); }
#define GETTER(N, T, M) static T nunavutGet##N(const std::uint8_t* b, std::size_t bs, std::size_t off, std::uint8_t len) { return const_bitspan(b, bs, off).M(len); }
GETTER(U8, std::uint8_t, getU8) GETTER(U16, std::uint16_t, getU16) GETTER(U32, std::uint32_t, getU32) GETTER(U64, std::uint64_t, getU64)
GETTER(I8, std::int8_t, getI8) GETTER(I16, std::int16_t, getI16) GETTER(I32, std::int32_t, getI32) GETTER(I64, std::int64_t, getI64)
static std::uint16_t nunavutFloat16Pack(float f) { return nunavut::support::float16Pack(f); }
static float nunavutFloat16Unpack(std::uint16_t h) { return nunavut::support::float16Unpack(h); }
static int8_t nunavutSetF16(std::uint8_t* b, std::size_t bs, std::size_t off, float v) { return rcof(bitspan(b, bs, off).setF16(v)); }
static int8_t nunavutSetF32(std::uint8_t* b, std::size_t bs, std::size_t off, float v) { return rcof(bitspan(b, bs, off).setF32(v)); }
static int8_t nunavutSetF64(std::uint8_t* b, std::size_t bs, std::size_t off, double v) { return rcof(bitspan(b, bs, off).setF64(v)); }
static float nunavutGetF16(const std::uint8_t* b, std::size_t bs, std::size_t off) { return const_bitspan(b, bs, off).getF16(); }
static float nunavutGetF32(const std::uint8_t* b, std::size_t bs, std::size_t off) { return const_bitspan(b, bs, off).getF32(); }
static double nunavutGetF64(const std::uint8_t* b, std::size_t bs, std::size_t off) { return const_bitspan(b, bs, off).getF64(); }
using std::isinf; using std::signbit;
#include "driver.c"
static void test_set_zeros(unsigned shard, unsigned nshards, int thorough)
{
    (void) thorough;
    for (std::size_t off = shard; off <= 23; off += nshards) for (std::size_t len = 0; len <= 80; ++len) for (int pat = 0; pat < 3; ++pat) for (int small = 0; small < 2; ++small) {
        const std::size_t need = (off + len + 7) / 8, bs = small ? (need ? need - 1 : 0) : need + (pat == 2 ? 2 : 0);
        std::uint8_t* buf = xalloc(bs); std::uint8_t* before = xalloc(bs); fill(buf, bs, pat); memcpy(before, buf, bs);
        const auto r = bitspan(buf, bs, off).setZeros(len); ++n_calls;
        if (len == 0) { if (memcmp(buf, before, bs)) MISMATCH("bitspan::setZeros off=%zu len=0: buffer modified", off); }
        else if (bs * 8 < off + len) { ++n_toosmall; if (r || memcmp(buf, before, bs)) MISMATCH("bitspan::setZeros off=%zu len=%zu buf_size=%zu: too small buffer not refused cleanly", off, len, bs); }
        else if (!r) MISMATCH("bitspan::setZeros off=%zu len=%zu buf_size=%zu refused", off, len, bs);
        else for (std::size_t i = 0; i < bs * 8; ++i) { const int want = (i >= off && i < off + len) ? 0 : getbit(before, bs, i); if (getbit(buf, bs, i) != want) { MISMATCH("bitspan::setZeros off=%zu len=%zu prefill=%d: bit %zu is %d, expected %d (%s)", off, len, pat, i, getbit(buf, bs, i), want, (i >= off && i < off + len) ? "addressed" : "not addressed"); break; } }
        free(buf); free(before);
    }
}
