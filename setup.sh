#!/bin/sh
# MANIFEST.setup_cmd: install third-party helpers from the offline wheelhouse into /verif/.deps (git-ignored).
# Every check also calls this lazily when .deps is absent, so a fresh restore works either way; a lock keeps two
# checks that start at the same moment from installing into the same directory at once.
set -e
cd "$(dirname "$0")"
(
    flock 9 2>/dev/null || true
    if [ ! -f .deps/.ok ]; then
        rm -rf .deps
        PIP_NO_INDEX=1 /venv/bin/pip install --quiet --no-index --find-links /opt/veriftools/wheels \
            --target .deps numpy icontract deal >/dev/null 2>.deps.log || { cat .deps.log; exit 1; }
        rm -f .deps.log
        touch .deps/.ok
    fi
) 9>.deps.lock
echo "setup ok"
