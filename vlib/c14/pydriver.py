"""C14 driver for the generated Python support module (run in a child interpreter with the output dir on sys.path).
Big-int reference: the Serializer owns a zeroed buffer; bits before the cursor must stay, bits after the new cursor stay zero."""
import json
import math
import random
import struct
import sys

import numpy as np
import nunavut_support as ns

C = {"calls": 0, "mismatches": 0}
OUT = []


def mismatch(msg):
    C["mismatches"] += 1
    if len(OUT) < 25:
        OUT.append(msg)


def bits_of(buf):
    return int.from_bytes(bytes(buf), "little")


def shim():
    S = ns.Serializer
    for name in dir(S):
        if name.startswith(("add_aligned_", "add_unaligned_")) and not any(x in name for x in ("array", "bytes", "bit", "_f16", "_f32", "_f64")):
            orig = getattr(S, name)

            def make(orig):
                def w(self, value, *a, **k):
                    if isinstance(value, np.integer):
                        value = int(value)
                    return orig(self, value, *a, **k)
                return w
            setattr(S, name, make(orig))


def test_unsigned_signed(r, maxoff, nvals):
    for off in range(maxoff + 1):
        for bl in range(1, 65):
            vals = [0, (1 << bl) - 1, 1, 1 << (bl - 1), (1 << (bl - 1)) - 1] + [r.getrandbits(bl) for _ in range(nvals)]
            for v in vals:
                for signed in ((False, True) if bl >= 2 else (False,)):
                    ser = ns.Serializer.new((off + bl + 7) // 8 + 2)
                    pre = r.getrandbits(off) if off else 0
                    if off:
                        ser.add_unaligned_unsigned(pre, off) if off <= 64 else None
                    sv = v - (1 << bl) if (signed and v >> (bl - 1)) else v
                    aligned = off % 8 == 0
                    try:
                        if signed:
                            (ser.add_aligned_signed if aligned else ser.add_unaligned_signed)(sv, bl)
                        else:
                            (ser.add_aligned_unsigned if aligned else ser.add_unaligned_unsigned)(v, bl)
                    except Exception as e:
                        mismatch("Serializer.add_%s_%s(%d, %d) at bit offset %d raised %s: %s" % ("aligned" if aligned else "unaligned", "signed" if signed else "unsigned", sv if signed else v, bl, off, type(e).__name__, str(e)[:80]))
                        continue
                    C["calls"] += 1
                    got = bits_of(ser.buffer)
                    want = pre | (v << off)
                    if got != want or ser.current_bit_length != off + bl:
                        mismatch("Serializer.add_%s_%s(%d, %d) at bit offset %d: buffer %x, expected %x (bits before the cursor kept, addressed bits set, rest zero)" % (
                            "aligned" if aligned else "unaligned", "signed" if signed else "unsigned", sv if signed else v, bl, off, got, want))
                        continue
                    # read back, also from truncated buffers (zero extension)
                    full = bytes(ser.buffer)
                    for cut in (len(full), (off + bl) // 8, off // 8, 0):
                        data = full[:cut]
                        des = ns.Deserializer.new([memoryview(data)])
                        des.skip_bits(off)
                        zv = (int.from_bytes(data, "little") >> off) & ((1 << bl) - 1)
                        try:
                            if signed:
                                g = (des.fetch_aligned_signed if aligned else des.fetch_unaligned_signed)(bl)
                                w = zv - (1 << bl) if zv >> (bl - 1) else zv
                            else:
                                g = (des.fetch_aligned_unsigned if aligned else des.fetch_unaligned_unsigned)(bl)
                                w = zv
                        except Exception as e:
                            mismatch("Deserializer.fetch_%s_%s(%d) at offset %d from %d bytes raised %s" % ("aligned" if aligned else "unaligned", "signed" if signed else "unsigned", bl, off, cut, type(e).__name__))
                            continue
                        C["calls"] += 1
                        if int(g) != w:
                            mismatch("Deserializer.fetch_%s_%s(%d) at offset %d from %d of %d bytes: got %d, expected %d%s" % (
                                "aligned" if aligned else "unaligned", "signed" if signed else "unsigned", bl, off, cut, len(full), int(g), w, " (zero extension)" if cut < len(full) else ""))


def test_std(r, n):
    """aligned u8..i64 / f16..f64 helpers and unaligned floats"""
    for _ in range(n):
        for name, fmt, bl, signed in (("u8", "<B", 8, False), ("u16", "<H", 16, False), ("u32", "<I", 32, False), ("u64", "<Q", 64, False),
                                      ("i8", "<b", 8, True), ("i16", "<h", 16, True), ("i32", "<i", 32, True), ("i64", "<q", 64, True)):
            raw = r.choice([0, (1 << bl) - 1, 1 << (bl - 1), r.getrandbits(bl)])
            v = raw - (1 << bl) if (signed and raw >> (bl - 1)) else raw
            ser = ns.Serializer.new(bl // 8 + 1)
            getattr(ser, "add_aligned_" + name)(v)
            C["calls"] += 1
            if bytes(ser.buffer)[:bl // 8] != struct.pack(fmt, v):
                mismatch("Serializer.add_aligned_%s(%d): %s" % (name, v, bytes(ser.buffer).hex()))
            g = getattr(ns.Deserializer.new([memoryview(struct.pack(fmt, v))]), "fetch_aligned_" + name)()
            C["calls"] += 1
            if int(g) != v:
                mismatch("Deserializer.fetch_aligned_%s: got %d, expected %d" % (name, int(g), v))
        for name, fmt, bl in (("f16", "<e", 16), ("f32", "<f", 32), ("f64", "<d", 64)):
            raw = r.getrandbits(bl)
            x = struct.unpack(fmt, raw.to_bytes(bl // 8, "little"))[0]
            for off in (0, r.randint(1, 15)):
                ser = ns.Serializer.new((off + bl + 7) // 8 + 1)
                if off:
                    ser.add_unaligned_unsigned((1 << off) - 1, off)
                (getattr(ser, "add_aligned_" + name) if off % 8 == 0 else getattr(ser, "add_unaligned_" + name))(x)
                C["calls"] += 1
                got = (bits_of(ser.buffer) >> off) & ((1 << bl) - 1)
                if x == x and got != raw:
                    mismatch("Serializer.add_%s at offset %d: bits %x, expected %x" % (name, off, got, raw))
                des = ns.Deserializer.new([memoryview(bytes(ser.buffer))])
                des.skip_bits(off)
                y = (getattr(des, "fetch_aligned_" + name) if off % 8 == 0 else getattr(des, "fetch_unaligned_" + name))()
                C["calls"] += 1
                if not (y == x or (x != x and y != y)):
                    mismatch("Deserializer.fetch_%s at offset %d: %r, expected %r" % (name, off, y, x))


def test_bits_arrays(r, n):
    for _ in range(n):
        off = r.randint(0, 15)
        k = r.randint(0, 40)
        arr = np.array([r.random() < 0.5 for _ in range(k)], dtype=bool)
        ser = ns.Serializer.new((off + k + 7) // 8 + 1)
        if off:
            ser.add_unaligned_unsigned((1 << off) - 1, off)
        (ser.add_aligned_array_of_bits if off % 8 == 0 else ser.add_unaligned_array_of_bits)(arr)
        C["calls"] += 1
        want = ((1 << off) - 1) | (sum(int(b) << i for i, b in enumerate(arr)) << off)
        if bits_of(ser.buffer) != want:
            mismatch("Serializer.add_%s_array_of_bits(%d bits) at offset %d: buffer %x, expected %x" % ("aligned" if off % 8 == 0 else "unaligned", k, off, bits_of(ser.buffer), want))
        full = bytes(ser.buffer)
        for cut in (len(full), off // 8, max(0, (off + k) // 8 - 1)):
            des = ns.Deserializer.new([memoryview(full[:cut])])
            des.skip_bits(off)
            got = (des.fetch_aligned_array_of_bits if off % 8 == 0 else des.fetch_unaligned_array_of_bits)(k)
            C["calls"] += 1
            z = int.from_bytes(full[:cut], "little") >> off
            exp = [bool((z >> i) & 1) for i in range(k)]
            if list(map(bool, got)) != exp:
                mismatch("Deserializer.fetch_%s_array_of_bits(%d) at offset %d from %d bytes: %s, expected %s" % ("aligned" if off % 8 == 0 else "unaligned", k, off, cut, list(map(int, got)), list(map(int, exp))))
        # primitive arrays
        dt = r.choice([np.uint8, np.int16, np.uint32, np.int64, np.float32, np.float64, np.float16])
        a = np.array([r.randint(0, 100) for _ in range(r.randint(0, 6))], dtype=dt)
        off = r.choice([0, 0, 3, 11])
        ser = ns.Serializer.new((off + a.nbytes * 8 + 7) // 8 + 1)
        if off:
            ser.add_unaligned_unsigned(0, off)
        (ser.add_aligned_array_of_standard_bit_length_primitives if off % 8 == 0 else ser.add_unaligned_array_of_standard_bit_length_primitives)(a)
        C["calls"] += 1
        want = int.from_bytes(a.astype(a.dtype.newbyteorder("<")).tobytes(), "little") << off
        if bits_of(ser.buffer) != want:
            mismatch("Serializer.add_*_array_of_standard_bit_length_primitives(%s x %d) at offset %d" % (a.dtype, len(a), off))
        des = ns.Deserializer.new([memoryview(bytes(ser.buffer))])
        des.skip_bits(off)
        b = (des.fetch_aligned_array_of_standard_bit_length_primitives if off % 8 == 0 else des.fetch_unaligned_array_of_standard_bit_length_primitives)(a.dtype, len(a))
        C["calls"] += 1
        if list(b) != list(a):
            mismatch("Deserializer.fetch_*_array_of_standard_bit_length_primitives(%s x %d) at offset %d: %s != %s" % (a.dtype, len(a), off, list(b), list(a)))


def test_state_between_reads(r, n):
    """What one read returns belongs to the caller: writing into it must not be seen by any later read, in particular not by reads
    beyond the end of (another) buffer, which are zeros by definition."""
    for _ in range(n):
        size = r.randint(0, 6)
        buf = bytes(r.getrandbits(8) for _ in range(size))
        d1 = ns.Deserializer.new([memoryview(buf)])
        skip = r.choice([0, size, size + 1, size + 4])
        d1.skip_bits(8 * skip)
        count = r.randint(1, 40)
        kind = r.choice(["bytes", "u16", "bits"])
        try:
            if kind == "bytes":
                a = d1.fetch_aligned_bytes(count)
            elif kind == "u16":
                a = d1.fetch_aligned_array_of_standard_bit_length_primitives(np.uint16, count)
            else:
                a = d1.fetch_aligned_array_of_bits(count)
        except Exception as e:
            mismatch("read of %d %s after %d of %d bytes raised %r" % (count, kind, skip, size, e))
            continue
        C["calls"] += 1
        try:
            a[...] = True if kind == "bits" else 0xA5     # poison what we were handed, if it can be written to
        except (ValueError, TypeError):
            pass
        # a later, unrelated read beyond the end
        d2 = ns.Deserializer.new([memoryview(b"\x01")])
        d2.skip_bits(8 * r.choice([1, 2, 9]))
        n2 = r.randint(1, 40)
        b = d2.fetch_aligned_bytes(n2) if r.random() < 0.6 else d2.fetch_aligned_array_of_standard_bit_length_primitives(np.uint16, n2)
        C["calls"] += 1
        if any(int(x) != 0 for x in b):
            mismatch("read beyond the end of a buffer returned %s, not zeros, after an earlier result was written to" % list(b)[:8])
            return


def fbits(fmt, x):
    return int.from_bytes(struct.pack(fmt, x), "little")


def test_float_histories(r):
    """A primitive's result depends on its arguments only, not on the calls made before it: every ordered pair of special values
    (both zeros, infinities, NaN, extremes, neighbours) is written back to back through the scalar float primitives."""
    for name, fmt, bl in (("f16", "<e", 16), ("f32", "<f", 32), ("f64", "<d", 64)):
        tiny = struct.unpack(fmt, (1).to_bytes(bl // 8, "little"))[0]
        big = struct.unpack(fmt, ((1 << (bl - 1)) - 1 - (1 << {16: 10, 32: 23, 64: 52}[bl])).to_bytes(bl // 8, "little"))[0]
        specials = [0.0, -0.0, 1.0, -1.0, float("inf"), float("-inf"), float("nan"), tiny, -tiny, big, -big, 0.5, -0.5, 2.0, 1.5]
        for off in (0, 3):
            for a in specials:
                for b in specials:
                    got = []
                    for x in (a, b, a):
                        ser = ns.Serializer.new((off + bl + 7) // 8 + 1)
                        if off:
                            ser.add_unaligned_unsigned(0, off)
                        (getattr(ser, "add_aligned_" + name) if off == 0 else getattr(ser, "add_unaligned_" + name))(x)
                        C["calls"] += 1
                        got.append((bits_of(ser.buffer) >> off) & ((1 << bl) - 1))
                    for x, g in zip((a, b, a), got):
                        if x == x and g != fbits(fmt, x):
                            mismatch("Serializer.add_%s(%r) at offset %d right after writing %r / %r in other serializers: bits %x, expected %x" % (name, x, off, a, b, g, fbits(fmt, x)))
                            return
                    # and reading: the same bytes read twice with another value read in between
                    vals = []
                    for x in (a, b, a):
                        des = ns.Deserializer.new([memoryview(struct.pack(fmt, x))])
                        y = getattr(des, "fetch_aligned_" + name)()
                        C["calls"] += 1
                        vals.append(y)
                    for x, y in zip((a, b, a), vals):
                        if not ((x != x and y != y) or (y == x and math.copysign(1.0, y) == math.copysign(1.0, x))):
                            mismatch("Deserializer.fetch_aligned_%s of %r read right after %r / %r: %r" % (name, x, a, b, y))
                            return


def test_all_halves(idx, nproc):
    """Every one of the 65,536 half-precision patterns (this process takes every nproc-th): written value-for-value, read back class- and
    value-exact, in increasing and then in a scrambled order."""
    hs = [h for h in range(1 << 16) if h % nproc == idx]
    rr = random.Random(idx)
    for order in (hs, rr.sample(hs, len(hs))):
        for h in order:
            x = struct.unpack("<e", h.to_bytes(2, "little"))[0]
            ser = ns.Serializer.new(3)
            ser.add_aligned_f16(x)
            C["calls"] += 1
            g = bits_of(ser.buffer) & 0xFFFF
            if x == x and g != h:
                mismatch("Serializer.add_aligned_f16(half 0x%04x = %r): bits 0x%04x" % (h, x, g))
                return
            if x != x and not ((g & 0x7C00) == 0x7C00 and (g & 0x3FF)):
                mismatch("Serializer.add_aligned_f16(NaN half 0x%04x): bits 0x%04x are not a NaN" % (h, g))
                return
            y = ns.Deserializer.new([memoryview(h.to_bytes(2, "little"))]).fetch_aligned_f16()
            C["calls"] += 1
            if not ((x != x and y != y) or (y == x and math.copysign(1.0, y) == math.copysign(1.0, x))):
                mismatch("Deserializer.fetch_aligned_f16(half 0x%04x): %r, expected %r" % (h, y, x))
                return


def main():
    seed, thorough = int(sys.argv[1]), int(sys.argv[2])
    idx, nproc = (int(sys.argv[3]), int(sys.argv[4])) if len(sys.argv) > 4 else (0, 1)
    r = random.Random(seed)
    shim()
    test_float_histories(r)
    test_all_halves(idx, nproc)
    test_unsigned_signed(r, 15, 6 if thorough else 2)
    test_std(r, 3000 if thorough else 400)
    test_bits_arrays(r, 4000 if thorough else 500)
    test_state_between_reads(r, 3000 if thorough else 400)
    print(json.dumps({"counters": C, "mismatches": OUT, "numpy": np.__version__}))


if __name__ == "__main__":
    main()
